// Translator for C07 (visibility and declared types are enforced at every
// access path and boundary).
//
// Reads (never executes) the access nodes under node/ and regenerates
// lean/Generated/C07Access.lean:
//
//   - `table : Path → Recv → Check`: for every access path (`$o->p`, `$o->p = v`,
//     `$o->m()`, `$o->$n`, `$o->$n = v`, `$o->$n()`, `$o['p']`, `$o['p'] = v`,
//     `A::$p`, `A::$p = v`, `A::m()`, `self::`, `static::`, `parent::m()`) and for
//     each of the two receiver arms of its type switch (`*data.ThisValue`,
//     `*data.ClassValue`) which modifier test the arm performs before it touches
//     the member: none, `canAccessProperty(ctx, recv.Class, property)` /
//     `canAccessMethod(ctx, recv.Class, name, method)` / `canAccessMember(ctx, foundClass, m)`
//     (node/visibility.go: PHP's rule on the lexical class and the declaring class) for which
//     modifiers, the older `isCallerInClassHierarchy(ctx, T)` for which modifiers
//     and against which class, "non-public ⇒ error", "private ⇒ error";
//   - `boundary : Boundary → BKind`: what each typed boundary does with the
//     declared type (`Is` or error / `null` let through / nothing).
//
// A test that comes after the member has been touched, a guard whose body does
// not return, two guards with different targets, or any other shape this file
// does not recognise becomes `shapeChanged` (and a line in `shapeNotes`), which
// fails the obligations in Proofs/Properties/C07.lean.
package main

import (
	"fmt"
	"go/ast"
	"go/printer"
	"go/token"
	"os"
	"sort"
	"strings"

	"verif/extract/ex"
)

var notes []string

func note(f string, a ...any) { notes = append(notes, fmt.Sprintf(f, a...)) }

// ---------------------------------------------------------------- small AST helpers

func exprString(e ast.Expr) string {
	switch t := e.(type) {
	case *ast.Ident:
		return t.Name
	case *ast.SelectorExpr:
		return exprString(t.X) + "." + t.Sel.Name
	case *ast.StarExpr:
		return "*" + exprString(t.X)
	case *ast.CallExpr:
		return exprString(t.Fun) + "()"
	case *ast.ParenExpr:
		return exprString(t.X)
	case *ast.UnaryExpr:
		return t.Op.String() + exprString(t.X)
	}
	return fmt.Sprintf("<%T>", e)
}

// modifiers tested by a condition: `X.GetModifier() == data.ModifierPrivate`, `… == data.ModifierProtected`,
// joined by `||`; or `X.GetModifier() != data.ModifierPublic` (= both).
func condMods(e ast.Expr) (priv, prot, ok bool) {
	switch t := e.(type) {
	case *ast.ParenExpr:
		return condMods(t.X)
	case *ast.BinaryExpr:
		if t.Op == token.LOR {
			a1, b1, ok1 := condMods(t.X)
			a2, b2, ok2 := condMods(t.Y)
			return a1 || a2, b1 || b2, ok1 && ok2
		}
		if t.Op != token.EQL && t.Op != token.NEQ {
			return false, false, false
		}
		call, isCall := t.X.(*ast.CallExpr)
		if !isCall || !strings.HasSuffix(exprString(call.Fun), ".GetModifier") {
			return false, false, false
		}
		switch exprString(t.Y) {
		case "data.ModifierPrivate":
			return t.Op == token.EQL, false, t.Op == token.EQL
		case "data.ModifierProtected":
			return false, t.Op == token.EQL, t.Op == token.EQL
		case "data.ModifierPublic":
			return t.Op == token.NEQ, t.Op == token.NEQ, t.Op == token.NEQ
		}
	}
	return false, false, false
}

func returnsError(stmts []ast.Stmt) bool {
	for _, s := range stmts {
		if r, ok := s.(*ast.ReturnStmt); ok {
			for _, res := range r.Results {
				found := false
				ast.Inspect(res, func(n ast.Node) bool {
					if c, ok := n.(*ast.CallExpr); ok {
						fn := exprString(c.Fun)
						if strings.HasPrefix(fn, "data.New") && (strings.Contains(fn, "Error") || strings.Contains(fn, "Fatal")) {
							found = true
						}
					}
					return true
				})
				if found {
					return true
				}
			}
		}
	}
	return false
}

type guard struct {
	priv, prot bool
	kind       string // hier | lex | deny
	target     string // hier: second argument of isCallerInClassHierarchy; lex: the class argument of canAccess…
	pos        token.Pos
}

// modRecv: the expression whose GetModifier() a condition tests ("" when there are several or none)
func modRecv(e ast.Expr) string {
	recv, many := "", false
	ast.Inspect(e, func(n ast.Node) bool {
		if c, ok := n.(*ast.CallExpr); ok {
			if sel, ok := c.Fun.(*ast.SelectorExpr); ok && sel.Sel.Name == "GetModifier" {
				r := exprString(sel.X)
				if recv != "" && recv != r {
					many = true
				}
				recv = r
			}
		}
		return true
	})
	if many {
		return ""
	}
	return recv
}

// lexGuard: `canAccessProperty(ctx, X.Class, P)`, `canAccessMethod(ctx, X.Class, name, M)` or
// `canAccessMember(ctx, C, M.GetModifier())` where P / M is the member whose modifier the enclosing condition
// tests; returns the class argument.
func lexGuard(call *ast.CallExpr, member string) (target string, ok bool) {
	if member == "" || len(call.Args) < 3 || exprString(call.Args[0]) != "ctx" {
		return "", false
	}
	switch exprString(call.Fun) {
	case "canAccessProperty":
		if len(call.Args) == 3 && exprString(call.Args[2]) == member {
			return exprString(call.Args[1]), true
		}
	case "canAccessMethod":
		if len(call.Args) == 4 && exprString(call.Args[3]) == member {
			return exprString(call.Args[1]), true
		}
	case "canAccessMember":
		if len(call.Args) == 3 && exprString(call.Args[2]) == member+".GetModifier()" {
			return exprString(call.Args[1]), true
		}
	}
	return "", false
}

// guardsIn collects the modifier guards of a statement list (recursively through blocks and if-chains).
func guardsIn(stmts []ast.Stmt, out *[]guard) {
	var visitIf func(s *ast.IfStmt)
	visitIf = func(s *ast.IfStmt) {
		if p, q, ok := condMods(s.Cond); ok {
			g := guard{priv: p, prot: q, pos: s.Pos()}
			if returnsError(s.Body.List) {
				g.kind = "deny"
				*out = append(*out, g)
			} else {
				// expect `if !isCallerInClassHierarchy(ctx, T) { return error }`
				found := false
				for _, b := range s.Body.List {
					inner, ok := b.(*ast.IfStmt)
					if !ok {
						continue
					}
					u, ok := inner.Cond.(*ast.UnaryExpr)
					if !ok || u.Op != token.NOT {
						continue
					}
					call, ok := u.X.(*ast.CallExpr)
					if !ok || !returnsError(inner.Body.List) {
						continue
					}
					if t, isLex := lexGuard(call, modRecv(s.Cond)); isLex {
						g.kind, g.target = "lex", t
						*out = append(*out, g)
						found = true
						continue
					}
					if exprString(call.Fun) != "isCallerInClassHierarchy" || len(call.Args) != 2 {
						continue
					}
					if exprString(call.Args[0]) != "ctx" {
						continue
					}
					g.kind, g.target = "hier", exprString(call.Args[1])
					*out = append(*out, g)
					found = true
				}
				if !found {
					g.kind = "unknown"
					*out = append(*out, g)
				}
			}
		} else {
			guardsIn(s.Body.List, out)
		}
		switch e := s.Else.(type) {
		case *ast.IfStmt:
			visitIf(e)
		case *ast.BlockStmt:
			guardsIn(e.List, out)
		}
	}
	for _, s := range stmts {
		switch t := s.(type) {
		case *ast.IfStmt:
			visitIf(t)
		case *ast.BlockStmt:
			guardsIn(t.List, out)
		}
	}
}

// firstEffect: position of the first call that touches the member (reads its value, stores it, runs it).
func firstEffect(stmts []ast.Stmt, effects map[string]bool) token.Pos {
	best := token.NoPos
	for _, s := range stmts {
		ast.Inspect(s, func(n ast.Node) bool {
			c, ok := n.(*ast.CallExpr)
			if !ok {
				return true
			}
			fn := exprString(c.Fun)
			for e := range effects {
				if strings.HasSuffix(fn, e) {
					if best == token.NoPos || c.Pos() < best {
						best = c.Pos()
					}
				}
			}
			return true
		})
	}
	return best
}

// ---------------------------------------------------------------- receiver arms

func recvSwitch(fd *ast.FuncDecl) *ast.TypeSwitchStmt { return recvSwitchN(fd, 0) }

// recvSwitchN: the n-th (source order) type switch of fd that has both a `*data.ThisValue` and a
// `*data.ClassValue` clause.
func recvSwitchN(fd *ast.FuncDecl, n int) *ast.TypeSwitchStmt {
	var all []*ast.TypeSwitchStmt
	ast.Inspect(fd.Body, func(x ast.Node) bool {
		ts, ok := x.(*ast.TypeSwitchStmt)
		if !ok {
			return true
		}
		hasThis, hasClass := false, false
		for _, c := range ts.Body.List {
			for _, t := range c.(*ast.CaseClause).List {
				switch exprString(t) {
				case "*data.ThisValue":
					hasThis = true
				case "*data.ClassValue":
					hasClass = true
				}
			}
		}
		if hasThis && hasClass {
			all = append(all, ts)
		}
		return true
	})
	if n < len(all) {
		return all[n]
	}
	return nil
}

func switchVar(ts *ast.TypeSwitchStmt) string {
	if a, ok := ts.Assign.(*ast.AssignStmt); ok && len(a.Lhs) == 1 {
		return exprString(a.Lhs[0])
	}
	return ""
}

func arm(ts *ast.TypeSwitchStmt, ty string) []ast.Stmt {
	for _, c := range ts.Body.List {
		cc := c.(*ast.CaseClause)
		for _, t := range cc.List {
			if exprString(t) == ty {
				return cc.Body
			}
		}
	}
	return nil
}

var arrowEffects = map[string]bool{
	".SetProperty": true, "property.GetValue": true, "prop.GetValue": true, "method.Call": true,
	".callMethodParams": true, "ObjectValue.GetProperty": true, "prop.GetDefaultValue": true,
	"property.GetZVal": true,
}

// classify one arm of an `->` style node.
func classifyArrow(where string, body []ast.Stmt, sv string) string {
	return classifyArrowCtx(where, body, sv, false)
}

// needCtx: the node has already been seen to require a class context (`self::`, `static::`)
func classifyArrowCtx(where string, body []ast.Stmt, sv string, needCtx bool) string {
	if body == nil {
		note("%s: arm not found", where)
		return ".shapeChanged"
	}
	var gs []guard
	guardsIn(body, &gs)
	if len(gs) == 0 {
		return ".unchecked"
	}
	eff := firstEffect(body, arrowEffects)
	priv, prot := false, false
	target, kind := "", ""
	for _, g := range gs {
		if g.kind == "unknown" {
			note("%s: modifier test without a recognised consequence", where)
			return ".shapeChanged"
		}
		if kind != "" && kind != g.kind {
			note("%s: mixed guard kinds", where)
			return ".shapeChanged"
		}
		kind = g.kind
		if g.kind == "hier" || g.kind == "lex" {
			if target != "" && target != g.target {
				note("%s: guards test different classes (%s, %s)", where, target, g.target)
				return ".shapeChanged"
			}
			target = g.target
		}
		if eff != token.NoPos && eff < g.pos {
			note("%s: the member is touched before the modifier test", where)
			return ".shapeChanged"
		}
		priv = priv || g.priv
		prot = prot || g.prot
	}
	b := func(x bool) string {
		if x {
			return "true"
		}
		return "false"
	}
	if kind == "deny" {
		switch {
		case priv && prot:
			return ".pubOnly"
		case priv:
			return ".privDenied"
		}
		note("%s: deny guard for protected only", where)
		return ".shapeChanged"
	}
	if kind == "lex" {
		// the class handed to canAccess…: the receiver's class (the helper walks up to the declaring class) or
		// the class in which the static method was found
		switch {
		case sv != "" && target == sv+".Class":
		case sv == "" && (target == "classStmt" || target == "foundClass"):
		default:
			note("%s: canAccess… class argument %q not recognised", where, target)
			return ".shapeChanged"
		}
		return fmt.Sprintf(".lexical %s %s %s", b(priv), b(prot), b(needCtx))
	}
	tdecl := ""
	switch {
	case target == sv+".Class":
		tdecl = "false"
	case target == "classStmt":
		tdecl = "true"
	default:
		note("%s: isCallerInClassHierarchy target %q not recognised", where, target)
		return ".shapeChanged"
	}
	return fmt.Sprintf(".hier %s %s %s", b(priv), b(prot), tdecl)
}

// index arms: which lookup, pubOnly guard, raw-storage fall-back
func classifyIndex(where string, body []ast.Stmt, this bool) string {
	if body == nil {
		note("%s: arm not found", where)
		return ".shapeChanged"
	}
	var lookup *ast.IfStmt
	own := false
	ast.Inspect(&ast.BlockStmt{List: body}, func(n ast.Node) bool {
		if lookup != nil {
			return false
		}
		s, ok := n.(*ast.IfStmt)
		if !ok || s.Init == nil {
			return true
		}
		a, ok := s.Init.(*ast.AssignStmt)
		if !ok || len(a.Rhs) != 1 {
			return true
		}
		c, ok := a.Rhs[0].(*ast.CallExpr)
		if !ok {
			return true
		}
		fn := exprString(c.Fun)
		switch {
		case strings.HasSuffix(fn, ".GetPropertyStmt"):
			lookup, own = s, false
		case strings.HasSuffix(fn, ".Class.GetProperty"):
			lookup, own = s, true
		}
		return lookup == nil
	})
	if lookup == nil {
		note("%s: declared-property lookup not found", where)
		return ".shapeChanged"
	}
	var gs []guard
	guardsIn(lookup.Body.List, &gs)
	if len(gs) == 0 {
		if own {
			note("%s: own-class lookup without a modifier test", where)
			return ".shapeChanged"
		}
		return ".unchecked"
	}
	for _, g := range gs {
		if g.kind != "deny" || !g.priv || !g.prot {
			note("%s: unexpected guard in index arm", where)
			return ".shapeChanged"
		}
		eff := firstEffect(lookup.Body.List, map[string]bool{".SetProperty": true, "prop.GetValue": true})
		if eff != token.NoPos && eff < g.pos {
			note("%s: the member is touched before the modifier test", where)
			return ".shapeChanged"
		}
	}
	if !own {
		return ".pubOnly"
	}
	// is there a fall-back that reads the raw object storage when the own class does not declare it?
	elseAllowed := false
	if lookup.Else != nil {
		ast.Inspect(lookup.Else, func(n ast.Node) bool {
			if c, ok := n.(*ast.CallExpr); ok && strings.HasSuffix(exprString(c.Fun), "ObjectValue.GetProperty") {
				elseAllowed = true
			}
			return true
		})
	}
	if elseAllowed {
		return ".pubOnlyOwn true"
	}
	return ".pubOnlyOwn false"
}

// nodes that only need a class context (`self::`, `static::`): any GetModifier / hierarchy test?
func classifyKeyword(where string, fd *ast.FuncDecl) string {
	if fd == nil {
		note("%s: function not found", where)
		return ".shapeChanged"
	}
	var gs []guard
	guardsIn(fd.Body.List, &gs)
	needsCtx := false
	ast.Inspect(fd.Body, func(n ast.Node) bool {
		if ta, ok := n.(*ast.TypeAssertExpr); ok && ta.Type != nil && exprString(ta.Type) == "*data.ClassMethodContext" {
			needsCtx = true
		}
		return true
	})
	if !needsCtx {
		note("%s: no class-context test", where)
		return ".shapeChanged"
	}
	if len(gs) == 0 {
		return ".classCtxOnly"
	}
	return classifyArrowCtx(where, fd.Body.List, "", true)
}

func classifyParent(where string, fd *ast.FuncDecl) string {
	if fd == nil {
		note("%s: function not found", where)
		return ".shapeChanged"
	}
	var gs []guard
	guardsIn(fd.Body.List, &gs)
	eff := firstEffect(fd.Body.List, map[string]bool{"method.Call": true, ".callMethodParams": true})
	priv, prot := false, false
	for _, g := range gs {
		if g.kind != "deny" {
			note("%s: unexpected guard kind %s", where, g.kind)
			return ".shapeChanged"
		}
		if eff != token.NoPos && eff < g.pos {
			note("%s: the method runs before the modifier test", where)
			return ".shapeChanged"
		}
		priv = priv || g.priv
		prot = prot || g.prot
	}
	switch {
	case priv && prot:
		return ".pubOnly"
	case priv:
		return ".privDenied"
	case len(gs) == 0:
		return ".classCtxOnly"
	}
	note("%s: deny guard for protected only", where)
	return ".shapeChanged"
}

func classifyStaticMeth(where string, fd *ast.FuncDecl) string {
	if fd == nil {
		note("%s: function not found", where)
		return ".shapeChanged"
	}
	var gs []guard
	guardsIn(fd.Body.List, &gs)
	if len(gs) == 0 {
		return ".unchecked"
	}
	// the wrappers that make the method callable must come after the guard
	eff := token.NoPos
	ast.Inspect(fd.Body, func(n ast.Node) bool {
		if cl, ok := n.(*ast.CompositeLit); ok {
			t := exprString(cl.Type)
			if t == "staticMethodFunc" || t == "callStaticFunc" {
				if eff == token.NoPos || cl.Pos() < eff {
					eff = cl.Pos()
				}
			}
		}
		return true
	})
	for _, g := range gs {
		if eff != token.NoPos && eff < g.pos {
			note("%s: the method is handed out before the modifier test", where)
			return ".shapeChanged"
		}
	}
	return classifyArrow(where, fd.Body.List, "")
}

func classifyStaticProp(where string, fd *ast.FuncDecl) string {
	if fd == nil {
		note("%s: function not found", where)
		return ".shapeChanged"
	}
	var gs []guard
	guardsIn(fd.Body.List, &gs)
	if len(gs) == 0 {
		return ".unchecked"
	}
	return classifyArrow(where, fd.Body.List, "")
}

// foreach over an object: the callback handed to RangeProperties must skip every property the executing code
// may not see — `if prop, ok := array.GetPropertyStmt(i); ok && !canAccessProperty(ctx, array.Class, prop) { return true }`
// — before it binds the loop variables.
func classifyIterate(fd *ast.FuncDecl) string {
	var cb *ast.FuncLit
	ast.Inspect(fd.Body, func(n ast.Node) bool {
		if c, ok := n.(*ast.CallExpr); ok && exprString(c.Fun) == "array.RangeProperties" && len(c.Args) == 1 {
			if fl, ok := c.Args[0].(*ast.FuncLit); ok && cb == nil {
				cb = fl
			}
		}
		return true
	})
	if cb == nil {
		note("foreach.go foreachClassValue: RangeProperties callback not found")
		return ".shapeChanged"
	}
	bind := firstEffect(cb.Body.List, map[string]bool{".SetVariableValue": true, ".SetValue": true})
	for _, st := range cb.Body.List {
		is, ok := st.(*ast.IfStmt)
		if !ok || is.Init == nil || is.Else != nil {
			continue
		}
		as, ok := is.Init.(*ast.AssignStmt)
		if !ok || len(as.Lhs) != 2 || len(as.Rhs) != 1 {
			continue
		}
		lk, ok := as.Rhs[0].(*ast.CallExpr)
		if !ok || exprString(lk.Fun) != "array.GetPropertyStmt" {
			continue
		}
		prop, okv := exprString(as.Lhs[0]), exprString(as.Lhs[1])
		be, ok := is.Cond.(*ast.BinaryExpr)
		if !ok || be.Op != token.LAND || exprString(be.X) != okv {
			continue
		}
		u, ok := be.Y.(*ast.UnaryExpr)
		if !ok || u.Op != token.NOT {
			continue
		}
		call, ok := u.X.(*ast.CallExpr)
		if !ok || exprString(call.Fun) != "canAccessProperty" || len(call.Args) != 3 ||
			exprString(call.Args[0]) != "ctx" || exprString(call.Args[1]) != "array.Class" || exprString(call.Args[2]) != prop {
			continue
		}
		// the body skips the element: a single `return true`
		if len(is.Body.List) != 1 {
			continue
		}
		ret, ok := is.Body.List[0].(*ast.ReturnStmt)
		if !ok || len(ret.Results) != 1 || exprString(ret.Results[0]) != "true" {
			continue
		}
		if bind != token.NoPos && bind < is.Pos() {
			note("foreach.go foreachClassValue: the loop variables are bound before the visibility test")
			return ".shapeChanged"
		}
		return ".lexical true true false"
	}
	if containsCall(fd.Body, ".GetModifier") || containsCall(fd.Body, "canAccessProperty") {
		note("foreach.go foreachClassValue: a modifier test appeared; shape not recognised")
		return ".shapeChanged"
	}
	return ".unchecked"
}

// helperShapes: node/visibility.go as the model reads it.
//
//	canAccessMember:   non-private/protected ⇒ true; scope := scopeClassOf(ctx); scope == nil ⇒ false;
//	                   private ⇒ `scope.GetName() == declClass.GetName()`; else isClassInHierarchy(…, scope, declClass)
//	isClassInHierarchy: same name ⇒ true, then two extends-chain loops
//	scopeClassOf:      `*data.ClassMethodContext` ⇒ SelfClass when set, else Class
//	canAccessProperty / canAccessMethod: public ⇒ true, else canAccessDeclared(ctx, class, modifier, …)
//	canAccessDeclared: first class up the chain that declares the member, handed to canAccessMember
//	ClassMethod.Call:  first statement records `cmc.SelfClass = lexicalClassOfMethod(…)`
//	LambdaExpression.Call: the closure's context inherits SelfClass
//
// Before the repair the one helper was isCallerInClassHierarchy in call_object_method.go.
func helperShapes(files map[string]*ast.File, fn func(file, recv, name string) *ast.FuncDecl) {
	loopsOf := func(h *ast.FuncDecl) int {
		loops := 0
		ast.Inspect(h.Body, func(n ast.Node) bool {
			if _, ok := n.(*ast.ForStmt); ok {
				loops++
			}
			return true
		})
		return loops
	}
	if files["visibility.go"] == nil {
		if h := fn("call_object_method.go", "", "isCallerInClassHierarchy"); h != nil && loopsOf(h) != 2 {
			note("isCallerInClassHierarchy: expected two extends-chain loops, found %d", loopsOf(h))
		}
		return
	}
	if h := fn("visibility.go", "", "isClassInHierarchy"); h != nil {
		if loopsOf(h) != 2 {
			note("isClassInHierarchy: expected two extends-chain loops, found %d", loopsOf(h))
		}
		if len(h.Body.List) == 0 || !strings.Contains(nodeText(h.Body.List[0]), "callerClass.GetName() == targetClass.GetName()") {
			note("isClassInHierarchy: the same-class test is not the first statement")
		}
	}
	if h := fn("visibility.go", "", "canAccessMember"); h != nil {
		txt := nodeText(h.Body)
		for _, want := range []string{
			"modifier != data.ModifierPrivate && modifier != data.ModifierProtected",
			"scope := scopeClassOf(ctx)",
			"scope == nil",
			"return scope.GetName() == declClass.GetName()",
			"return isClassInHierarchy(ctx.GetVM(), scope, declClass)",
		} {
			if !strings.Contains(txt, want) {
				note("canAccessMember: %q not found", want)
			}
		}
		if len(h.Body.List) != 5 {
			note("canAccessMember: expected 5 statements, found %d", len(h.Body.List))
		}
	}
	if h := fn("visibility.go", "", "scopeClassOf"); h != nil {
		body := caseBody(h, "*data.ClassMethodContext")
		if body == nil || !strings.Contains(nodeText(&ast.BlockStmt{List: body}), "return c.SelfClass") ||
			!strings.Contains(nodeText(&ast.BlockStmt{List: body}), "return c.Class") {
			note("scopeClassOf: the ClassMethodContext arm does not return SelfClass / Class")
		}
	}
	for _, name := range []string{"canAccessProperty", "canAccessMethod"} {
		if h := fn("visibility.go", "", name); h != nil {
			txt := nodeText(h.Body)
			if !strings.Contains(txt, ".GetModifier() == data.ModifierPublic") || !strings.Contains(txt, "return canAccessDeclared(ctx, class, ") || len(h.Body.List) > 3 {
				note("%s: shape not recognised", name)
			}
		}
	}
	if h := fn("visibility.go", "", "canAccessDeclared"); h != nil {
		txt := nodeText(h.Body)
		for _, want := range []string{"decl := class", "for decl != nil && !declares(decl)", "decl = parentClassOf(vm, decl)", "if canAccessMember(ctx, decl, modifier)"} {
			if !strings.Contains(txt, want) {
				note("canAccessDeclared: %q not found", want)
			}
		}
	}
	judgeRel = judgeOf(fn)
	fallbackRel = fallbackOf(fn)
	entryPaths = entryPathsOf(fn)
	if h := fn("class.go", "*ClassMethod", "Call"); h != nil {
		if len(h.Body.List) == 0 || !strings.Contains(nodeText(h.Body.List[0]), "cmc.SelfClass = lexicalClassOfMethod(ctx.GetVM(), cmc.Class, m)") {
			note("ClassMethod.Call: the lexical class is not recorded by the first statement")
		}
	}
	if h := fn("lambda.go", "*LambdaExpression", "Call"); h != nil {
		if !strings.Contains(nodeText(h.Body), "cmc.SelfClass = defineClassCtx.SelfClass") {
			note("LambdaExpression.Call: the closure context does not inherit SelfClass")
		}
	}
}

// entryPaths (round 8): the ways a body written in a class comes to run, and whether each records the class of
// the code (`SelfClass`) before a statement of that body can run.
//
//	ClassMethod.Call: every top-level statement that can leave the function (contains a `return` outside a
//	function literal) is an exit path — named after what it tests: `m.IsGenerator` → generator (the body runs later
//	in this very context), `maxCallDepth` → depthLimit, the `range m.Body` loop and everything after it → body —
//	and it records iff the statement `cmc.SelfClass = lexicalClassOfMethod(…)` is a top-level statement BEFORE it.
//	LambdaExpression.Call / FunctionStatement.Call: closure / functionInMethod record iff the context they build
//	inherits `defineClassCtx.SelfClass`.
type entryPath struct {
	name    string
	records bool
}

var entryPaths []entryPath

func entryPathsOf(fn func(file, recv, name string) *ast.FuncDecl) []entryPath {
	var out []entryPath
	add := func(name string, rec bool) {
		for i := range out {
			if out[i].name == name {
				out[i].records = out[i].records && rec
				return
			}
		}
		out = append(out, entryPath{name, rec})
	}
	hasReturn := func(n ast.Node) bool {
		found := false
		ast.Inspect(n, func(x ast.Node) bool {
			switch x.(type) {
			case *ast.FuncLit:
				return false
			case *ast.ReturnStmt:
				found = true
			}
			return !found
		})
		return found
	}
	if h := fn("class.go", "*ClassMethod", "Call"); h != nil {
		recAt, bodyAt := -1, -1
		for i, st := range h.Body.List {
			txt := nodeText(st)
			if recAt < 0 && strings.Contains(txt, "cmc.SelfClass = lexicalClassOfMethod(") && !hasReturn(st) {
				recAt = i
			}
			if bodyAt < 0 && strings.Contains(txt, "range m.Body") {
				bodyAt = i
			}
		}
		if bodyAt < 0 {
			note("ClassMethod.Call: the body loop `range m.Body` was not found")
		}
		for i, st := range h.Body.List {
			if !hasReturn(st) {
				continue
			}
			txt := nodeText(st)
			name := fmt.Sprintf("exit%d", i)
			switch {
			case bodyAt >= 0 && i >= bodyAt:
				name = "body"
			case strings.Contains(txt, "m.IsGenerator"):
				name = "generator"
			case strings.Contains(txt, "maxCallDepth"):
				name = "depthLimit"
			}
			add(name, recAt >= 0 && recAt < i)
		}
	} else {
		note("ClassMethod.Call not found")
	}
	if h := fn("lambda.go", "*LambdaExpression", "Call"); h != nil {
		add("closure", strings.Contains(nodeText(h.Body), "cmc.SelfClass = defineClassCtx.SelfClass"))
	}
	if h := fn("function.go", "*FunctionStatement", "Call"); h != nil {
		add("functionInMethod", strings.Contains(nodeText(h.Body), "cmc.SelfClass = defineClassCtx.SelfClass"))
	}
	return out
}

// fallbackRel: which relation between the receiver's class and the scope class the last statement of
// canAccessDeclared asks for before it grants the scope class's own same-named member
// (Model.AccessDecl.Fallback): the statement must be
//
//	return scope != nil && declares(scope) && <T>
//
// T = classExtends(vm, class, scope.GetName())  → recvExtendsScope (classExtends must be the one upward loop
// that compares every ancestor's name with the target), T = isClassInHierarchy(vm, class, scope) in either
// argument order → symmetric, no T → unconditional, `return false` → absent, anything else → shapeChanged.
var fallbackRel = ".shapeChanged"

// judgeRel: which class canAccessDeclared hands to canAccessMember for a PROTECTED member
// (Model.AccessDecl.Judge). The function must begin
//
//	vm := ctx.GetVM(); decl := class; for decl != nil && !declares(decl) { decl = parentClassOf(vm, decl) }
//
// followed directly by `if canAccessMember(ctx, decl, modifier) { return true }` → nearest. One statement
// `if modifier == data.ModifierProtected { decl = <helper>(vm, decl, declares) }` in between, the helper being
// `for c := decl; c != nil; c = parentClassOf(vm, c) { if declares(c) { decl = c } }; return decl` → topmost.
// Anything else → shapeChanged (a helper that stops at private declarations needs the modifier of an ancestor's
// declaration, which `declares` does not tell: it would come with another signature and is reported as a shape
// change to be modelled as `.prototype`).
var judgeRel = ".shapeChanged"

func judgeOf(fn func(file, recv, name string) *ast.FuncDecl) string {
	h := fn("visibility.go", "", "canAccessDeclared")
	if h == nil || len(h.Body.List) < 4 {
		note("canAccessDeclared: not found or too short for the judged-class fact")
		return ".shapeChanged"
	}
	l := h.Body.List
	if nodeText(l[0]) != "vm := ctx.GetVM()" || nodeText(l[1]) != "decl := class" ||
		nodeText(l[2]) != "for decl != nil && !declares(decl) { decl = parentClassOf(vm, decl) }" {
		note("canAccessDeclared: the walk to the nearest declaration is not the first three statements")
		return ".shapeChanged"
	}
	const test = "if canAccessMember(ctx, decl, modifier) { return true }"
	if nodeText(l[3]) == test {
		return ".nearest"
	}
	if len(l) >= 5 && nodeText(l[4]) == test {
		t := nodeText(l[3])
		const pre, post = "if modifier == data.ModifierProtected { decl = ", "(vm, decl, declares) }"
		if strings.HasPrefix(t, pre) && strings.HasSuffix(t, post) {
			name := t[len(pre) : len(t)-len(post)]
			if g := fn("visibility.go", "", name); g != nil && len(g.Body.List) == 2 &&
				nodeText(g.Body.List[0]) == "for c := decl; c != nil; c = parentClassOf(vm, c) { if declares(c) { decl = c } }" &&
				nodeText(g.Body.List[1]) == "return decl" {
				return ".topmost"
			}
		}
		note("canAccessDeclared: the class handed to canAccessMember is re-targeted by %q", t)
		return ".shapeChanged"
	}
	note("canAccessDeclared: the canAccessMember test does not follow the walk: %q", nodeText(l[3]))
	return ".shapeChanged"
}

func fallbackOf(fn func(file, recv, name string) *ast.FuncDecl) string {
	h := fn("visibility.go", "", "canAccessDeclared")
	if h == nil || len(h.Body.List) == 0 {
		note("canAccessDeclared: not found")
		return ".shapeChanged"
	}
	want := 6
	if judgeRel == ".topmost" || judgeRel == ".prototype" {
		want = 7 // the recognised re-targeting statement between the walk and the canAccessMember test
	}
	if len(h.Body.List) != want {
		note("canAccessDeclared: expected %d statements, found %d", want, len(h.Body.List))
		return ".shapeChanged"
	}
	if t := nodeText(h.Body.List[want-2]); t != "scope := scopeClassOf(ctx)" {
		note("canAccessDeclared: the scope of the fallback is %q", t)
		return ".shapeChanged"
	}
	last := nodeText(h.Body.List[want-1])
	const pre = "return scope != nil && declares(scope)"
	switch {
	case last == "return false":
		return ".absent"
	case last == pre:
		return ".unconditional"
	case last == pre+" && classExtends(vm, class, scope.GetName())":
		ce := fn("visibility.go", "", "classExtends")
		if ce == nil {
			note("classExtends: not found")
			return ".shapeChanged"
		}
		txt := nodeText(ce.Body)
		loops := 0
		ast.Inspect(ce.Body, func(n ast.Node) bool {
			if _, ok := n.(*ast.ForStmt); ok {
				loops++
			}
			return true
		})
		for _, want := range []string{"extend := class.GetExtend()", "for extend != nil", "if *extend == target { return true }", "extend = cls.GetExtend()", "return false"} {
			if !strings.Contains(txt, want) {
				note("classExtends: %q not found", want)
				return ".shapeChanged"
			}
		}
		if loops != 1 || len(ce.Body.List) != 3 {
			note("classExtends: expected one upward loop between the initialisation and `return false`")
			return ".shapeChanged"
		}
		return ".recvExtendsScope"
	case last == pre+" && isClassInHierarchy(vm, class, scope)", last == pre+" && isClassInHierarchy(vm, scope, class)":
		return ".symmetric"
	}
	note("canAccessDeclared: fallback clause not recognised: %q", last)
	return ".shapeChanged"
}

// variadicHelperOK: `checkVariadicElement(object, p, value, from)` is
//
//	if pt, isTypeParam := genericParamType(object, p.Type); isTypeParam { … }
//	return p.checkElement(value)
//
// i.e. a declared type that is not a type parameter of the object's generic class is tested by checkElement
func variadicHelperOK(h *ast.FuncDecl) bool {
	if h == nil || h.Body == nil || len(h.Body.List) != 2 {
		note("checkVariadicElement: expected the generic-parameter branch followed by `return p.checkElement(value)`")
		return false
	}
	first, ok := h.Body.List[0].(*ast.IfStmt)
	if !ok || first.Init == nil || nodeText(first.Init) != "pt, isTypeParam := genericParamType(object, p.Type)" || nodeText(first.Cond) != "isTypeParam" || first.Else != nil {
		note("checkVariadicElement: the first statement is not the generic-parameter branch")
		return false
	}
	if nodeText(h.Body.List[1]) != "return p.checkElement(value)" {
		note("checkVariadicElement: does not end with `return p.checkElement(value)`")
		return false
	}
	return true
}

// nodeText: source text of a node, whitespace normalised
func nodeText(n ast.Node) string {
	var sb strings.Builder
	if err := printer.Fprint(&sb, token.NewFileSet(), n); err != nil {
		return ""
	}
	return strings.Join(strings.Fields(sb.String()), " ")
}

// ---------------------------------------------------------------- boundaries

func containsCall(n ast.Node, suffix string) bool {
	found := false
	ast.Inspect(n, func(x ast.Node) bool {
		if c, ok := x.(*ast.CallExpr); ok && strings.HasSuffix(exprString(c.Fun), suffix) {
			found = true
		}
		return true
	})
	return found
}

// an `if … !X.Is(v) { return error }` somewhere in stmts
func hasIsGuard(stmts []ast.Stmt) bool {
	found := false
	ast.Inspect(&ast.BlockStmt{List: stmts}, func(n ast.Node) bool {
		s, ok := n.(*ast.IfStmt)
		if !ok {
			return true
		}
		neg := false
		ast.Inspect(s.Cond, func(c ast.Node) bool {
			if u, ok := c.(*ast.UnaryExpr); ok && u.Op == token.NOT && containsCall(u.X, ".Is") {
				neg = true
			}
			return true
		})
		if neg && returnsError(s.Body.List) {
			found = true
		}
		return true
	})
	return found
}

// `if _, isNull := v.(*data.NullValue); isNull { return <no error> }`
func hasNullBypass(stmts []ast.Stmt) bool {
	found := false
	ast.Inspect(&ast.BlockStmt{List: stmts}, func(n ast.Node) bool {
		s, ok := n.(*ast.IfStmt)
		if !ok || s.Init == nil {
			return true
		}
		a, ok := s.Init.(*ast.AssignStmt)
		if !ok || len(a.Rhs) != 1 {
			return true
		}
		ta, ok := a.Rhs[0].(*ast.TypeAssertExpr)
		if !ok || ta.Type == nil || exprString(ta.Type) != "*data.NullValue" {
			return true
		}
		for _, b := range s.Body.List {
			if _, ok := b.(*ast.ReturnStmt); ok && !returnsError(s.Body.List) {
				found = true
			}
		}
		return true
	})
	return found
}

// positive form: `if X.Is(v) { return v }` … followed by an error return
func hasIsAccept(stmts []ast.Stmt) bool {
	found := false
	ast.Inspect(&ast.BlockStmt{List: stmts}, func(n ast.Node) bool {
		s, ok := n.(*ast.IfStmt)
		if !ok {
			return true
		}
		if c, ok := s.Cond.(*ast.CallExpr); ok && strings.HasSuffix(exprString(c.Fun), ".Is") {
			found = true
		}
		return true
	})
	return found
}

func paramSetValueKind(fd *ast.FuncDecl) string {
	if fd == nil {
		note("Parameter.SetValue not found")
		return ".shapeChanged"
	}
	is := hasIsAccept(fd.Body.List) || hasIsGuard(fd.Body.List)
	null := hasNullBypass(fd.Body.List)
	switch {
	case is && null && nullBypassOnlyWhenAllowed(fd):
		return ".exact"
	case is && null:
		return ".nullAlso"
	case is:
		return ".exact"
	}
	return ".unchecked"
}

// nullBypassOnlyWhenAllowed: every null bypass of Parameter.SetValue has the condition `isNull && p.nullAllowed()`
// and nullAllowed is exactly "the default value is null, or the parameter has no source position (built-in
// function)" — neither holds for a parameter declared in a script without a null default, which is what the
// parameter boundaries of the model are about.
var nullAllowedFn *ast.FuncDecl

func nullBypassOnlyWhenAllowed(fd *ast.FuncDecl) bool {
	ok := true
	seen := false
	ast.Inspect(fd.Body, func(n ast.Node) bool {
		s, isIf := n.(*ast.IfStmt)
		if !isIf || s.Init == nil {
			return true
		}
		a, isA := s.Init.(*ast.AssignStmt)
		if !isA || len(a.Rhs) != 1 || len(a.Lhs) != 2 {
			return true
		}
		ta, isTA := a.Rhs[0].(*ast.TypeAssertExpr)
		if !isTA || ta.Type == nil || exprString(ta.Type) != "*data.NullValue" {
			return true
		}
		seen = true
		if nodeText(s.Cond) != exprString(a.Lhs[1])+" && p.nullAllowed()" {
			ok = false
		}
		return true
	})
	if !seen || !ok {
		return false
	}
	if nullAllowedFn == nil {
		note("Parameter.nullAllowed not found")
		return false
	}
	want := "{ switch p.DefaultValue.(type) { case *NullLiteral, *data.NullValue: return true } return p.Node == nil || p.from == nil }"
	if got := nodeText(nullAllowedFn.Body); got != want {
		note("Parameter.nullAllowed: shape not recognised: %s", got)
		return false
	}
	return true
}

func caseBody(fd *ast.FuncDecl, ty string) []ast.Stmt {
	var res []ast.Stmt
	found := false
	ast.Inspect(fd.Body, func(n ast.Node) bool {
		if found {
			return false
		}
		cc, ok := n.(*ast.CaseClause)
		if !ok {
			return true
		}
		for _, t := range cc.List {
			if exprString(t) == ty {
				res, found = cc.Body, true
				return false
			}
		}
		return true
	})
	if !found {
		return nil
	}
	if res == nil {
		res = []ast.Stmt{}
	}
	return res
}

// caseBodyMain: like caseBody, but of the last type switch that has such a case — the switch over the parameter
// kinds that binds an argument, which comes after the early branches for arguments that were not passed
func caseBodyMain(fd *ast.FuncDecl, ty string) []ast.Stmt {
	var res []ast.Stmt
	found := false
	ast.Inspect(fd.Body, func(n ast.Node) bool {
		cc, ok := n.(*ast.CaseClause)
		if !ok {
			return true
		}
		for _, t := range cc.List {
			if exprString(t) == ty {
				res, found = cc.Body, true
			}
		}
		return true
	})
	if !found {
		return nil
	}
	if res == nil {
		res = []ast.Stmt{}
	}
	return res
}

// ---------------------------------------------------------------- enforcement runs on every evaluation

// enforcement functions: a call of one of these IS the test of an enforcement point
var enforcementFns = map[string]bool{
	"isCallerInClassHierarchy":             true,
	"canAccessMember":                      true,
	"canAccessProperty":                    true,
	"canAccessMethod":                      true,
	"canAccessDeclared":                    true,
	"ValidateConcreteClassAbstractMethods": true,
	"IsAbstractClassStmt":                  true,
}

// isTypeTest: `X.Is(v)` (data.Types.Is)
func isTypeTest(c *ast.CallExpr) bool {
	sel, ok := c.Fun.(*ast.SelectorExpr)
	return ok && sel.Sel.Name == "Is" && len(c.Args) == 1
}

// memoScan: an enforcement call that sits inside a function literal does not run as part of the evaluation
// that contains it (it is handed to sync.Once.Do, a cache filler, a goroutine, a defer …): the test may be
// skipped on later evaluations. Every such call is a shape note. `typeTests`: the functions in which `X.Is(v)`
// is the declared-type test of a boundary.
func memoScan(files map[string]*ast.File, typeTests map[string]bool) {
	var names []string
	for n := range files {
		names = append(names, n)
	}
	sort.Strings(names)
	for _, file := range names {
		for _, d := range files[file].Decls {
			fd, ok := d.(*ast.FuncDecl)
			if !ok || fd.Body == nil {
				continue
			}
			fname := fd.Name.Name
			if fd.Recv != nil && len(fd.Recv.List) > 0 {
				fname = ex.TypeString(fd.Recv.List[0].Type) + "." + fname
			}
			var stack []ast.Node
			ast.Inspect(fd.Body, func(n ast.Node) bool {
				if n == nil {
					stack = stack[:len(stack)-1]
					return true
				}
				stack = append(stack, n)
				c, ok := n.(*ast.CallExpr)
				if !ok {
					return true
				}
				callee := exprString(c.Fun)
				if i := strings.LastIndexByte(callee, '.'); i >= 0 && !isTypeTest(c) {
					callee = callee[i+1:]
				}
				if !(enforcementFns[callee] || (isTypeTest(c) && typeTests[fname])) {
					return true
				}
				for i, a := range stack {
					if _, lit := a.(*ast.FuncLit); lit {
						// a literal handed directly to RangeProperties is the body of a synchronous loop over
						// the object's properties: it runs, for every element, as part of this evaluation
						if i > 0 {
							if pc, ok := stack[i-1].(*ast.CallExpr); ok && strings.HasSuffix(exprString(pc.Fun), ".RangeProperties") {
								continue
							}
						}
						note("%s %s: %s is called inside a function literal (deferred or memoised enforcement)", file, fname, callee)
						break
					}
				}
				return true
			})
		}
	}
}

// instantiation glue: does `new` run the abstract test and the completeness validation on every call
//
//	createInstanceFromClassStmt: the first statement is `if IsAbstractClassStmt(stmt) { … return nil, <error> }`
//	ClassStatement.GetValue:     the first statement is `if !c.IsAbstract { if acl := Validate…(…); acl != nil { return nil, acl } }`
//	                             and `data.NewClassValue` comes after it
func instGlue(files map[string]*ast.File) (abstractFirst, validateEvery bool) {
	if f := files["new.go"]; f != nil {
		if fd := ex.FuncDecl(f, "", "createInstanceFromClassStmt"); fd != nil && len(fd.Body.List) > 0 {
			if is, ok := fd.Body.List[0].(*ast.IfStmt); ok && is.Init == nil && is.Else == nil {
				if c, ok := is.Cond.(*ast.CallExpr); ok && exprString(c.Fun) == "IsAbstractClassStmt" && returnsError(is.Body.List) {
					abstractFirst = true
				}
			}
		}
	}
	if !abstractFirst {
		note("new.go createInstanceFromClassStmt: the abstract-class test is not the first statement")
	}
	if f := files["class.go"]; f != nil {
		if fd := ex.FuncDecl(f, "*ClassStatement", "GetValue"); fd != nil && len(fd.Body.List) > 0 {
			if outer, ok := fd.Body.List[0].(*ast.IfStmt); ok && outer.Init == nil && outer.Else == nil &&
				exprString(outer.Cond) == "!c.IsAbstract" && len(outer.Body.List) == 1 {
				if inner, ok := outer.Body.List[0].(*ast.IfStmt); ok && inner.Else == nil {
					if as, ok := inner.Init.(*ast.AssignStmt); ok && len(as.Lhs) == 1 && len(as.Rhs) == 1 {
						v := exprString(as.Lhs[0])
						c, isCall := as.Rhs[0].(*ast.CallExpr)
						if isCall && exprString(c.Fun) == "ValidateConcreteClassAbstractMethods" &&
							exprString(inner.Cond) == "<*ast.BinaryExpr>" && len(inner.Body.List) == 1 {
							be := inner.Cond.(*ast.BinaryExpr)
							ret, isRet := inner.Body.List[0].(*ast.ReturnStmt)
							if be.Op == token.NEQ && exprString(be.X) == v && exprString(be.Y) == "nil" &&
								isRet && len(ret.Results) == 2 && exprString(ret.Results[1]) == v {
								validateEvery = true
							}
						}
					}
				}
				// the object is created after the validation
				if validateEvery {
					created := token.NoPos
					ast.Inspect(fd.Body, func(n ast.Node) bool {
						if c, ok := n.(*ast.CallExpr); ok && exprString(c.Fun) == "data.NewClassValue" && created == token.NoPos {
							created = c.Pos()
						}
						return true
					})
					if created != token.NoPos && created < outer.End() {
						validateEvery = false
					}
				}
			}
		}
	}
	if !validateEvery {
		note("class.go ClassStatement.GetValue: the completeness validation is not run, tested and returned as the first statement of every call")
	}
	return
}

// ---------------------------------------------------------------- binding loops
//
// A callable is entered through a loop over its parameters. The result of binding parameter i (a data.Control
// held in a variable that outlives the iteration, `acl = paramSetValue(…)`) has to be looked at INSIDE the loop,
// before iteration i+1 overwrites it:
//
//	for index, param := range params { … acl = bind(…) …; if acl != nil { return nil, acl } }     → eachChecked
//	for index, param := range params { … acl = bind(…) … }; if acl != nil { return nil, acl }     → lastOnly
//
// Results that are defined and tested on the spot (`if acl := …; acl != nil { return }`, `x, acl := …` followed by
// the test) are scoped to their statement and need no further look.

type frame struct {
	list []ast.Stmt
	idx  int
}

// isNilTest: `if <name> != nil { … return … }` (the return anywhere directly in the body)
func isNilTest(st ast.Stmt, name string) bool {
	is, ok := st.(*ast.IfStmt)
	if !ok {
		return false
	}
	be, ok := is.Cond.(*ast.BinaryExpr)
	if !ok || be.Op != token.NEQ || exprString(be.X) != name || exprString(be.Y) != "nil" {
		return false
	}
	has := false
	ast.Inspect(is.Body, func(n ast.Node) bool {
		if _, ok := n.(*ast.FuncLit); ok {
			return false
		}
		if _, ok := n.(*ast.ReturnStmt); ok {
			has = true
		}
		return true
	})
	return has
}

// nilTested: the identifiers the function compares with nil somewhere
func nilTested(fd *ast.FuncDecl) map[string]bool {
	out := map[string]bool{}
	ast.Inspect(fd.Body, func(n ast.Node) bool {
		if be, ok := n.(*ast.BinaryExpr); ok && (be.Op == token.NEQ || be.Op == token.EQL) && exprString(be.Y) == "nil" {
			if id, ok := be.X.(*ast.Ident); ok {
				out[id.Name] = true
			}
		}
		return true
	})
	return out
}

// loopShape classifies one `for … range` loop; after: the statements that follow the loop in its block
func loopShape(where string, loop *ast.RangeStmt, after []ast.Stmt, tested map[string]bool) string {
	type pending struct {
		name   string
		frames []frame
	}
	var assigns []pending
	guarded := map[string]bool{}
	var walkList func(list []ast.Stmt, frames []frame)
	var walkStmt func(st ast.Stmt, frames []frame)
	record := func(as *ast.AssignStmt, frames []frame) {
		if as.Tok != token.ASSIGN || len(as.Rhs) != 1 {
			return
		}
		if _, isCall := as.Rhs[0].(*ast.CallExpr); !isCall {
			return
		}
		for _, l := range as.Lhs {
			if id, ok := l.(*ast.Ident); ok && id.Name != "_" && tested[id.Name] && !guarded[id.Name] {
				assigns = append(assigns, pending{id.Name, append([]frame{}, frames...)})
			}
		}
	}
	walkList = func(list []ast.Stmt, frames []frame) {
		for i, st := range list {
			walkStmt(st, append(append([]frame{}, frames...), frame{list, i}))
		}
	}
	walkStmt = func(st ast.Stmt, frames []frame) {
		switch s := st.(type) {
		case *ast.AssignStmt:
			record(s, frames)
		case *ast.BlockStmt:
			walkList(s.List, frames)
		case *ast.IfStmt:
			if as, ok := s.Init.(*ast.AssignStmt); ok {
				record(as, frames)
			}
			// inside `if <name> != nil { …; return … }` (the block's last statement returns) the error is already
			// on its way out: re-assigning <name> there (decorating it: a position, a stack entry) cannot lose it
			g := ""
			if be, ok := s.Cond.(*ast.BinaryExpr); ok && s.Init == nil && be.Op == token.NEQ && exprString(be.Y) == "nil" {
				if id, ok := be.X.(*ast.Ident); ok && len(s.Body.List) > 0 && !guarded[id.Name] {
					if _, ok := s.Body.List[len(s.Body.List)-1].(*ast.ReturnStmt); ok {
						g = id.Name
					}
				}
			}
			if g != "" {
				guarded[g] = true
			}
			walkList(s.Body.List, frames)
			if g != "" {
				delete(guarded, g)
			}
			if s.Else != nil {
				walkStmt(s.Else, frames)
			}
		case *ast.SwitchStmt:
			walkList(s.Body.List, frames)
		case *ast.TypeSwitchStmt:
			walkList(s.Body.List, frames)
		case *ast.CaseClause:
			walkList(s.Body, frames)
		case *ast.ForStmt:
			walkList(s.Body.List, frames)
		case *ast.RangeStmt:
			walkList(s.Body.List, frames)
		case *ast.LabeledStmt:
			walkStmt(s.Stmt, frames)
		}
	}
	walkList(loop.Body.List, nil)
	shape := ".eachChecked"
	for _, a := range assigns {
		covered := false
		for _, f := range a.frames {
			for j := f.idx + 1; j < len(f.list) && !covered; j++ {
				if isNilTest(f.list[j], a.name) {
					covered = true
				}
			}
			// `if acl = f(); acl == nil { … }`: the statement itself branches on the result; what it leaves in the
			// variable still has to be tested further out
		}
		if covered {
			continue
		}
		if len(after) > 0 && isNilTest(after[0], a.name) {
			note("%s: the result of binding a parameter (`%s`) is tested after the loop only: every iteration overwrites the result of the one before", where, a.name)
			shape = ".lastOnly"
			continue
		}
		note("%s: the result of binding a parameter (`%s`) is never tested", where, a.name)
		return ".shapeChanged"
	}
	return shape
}

// paramLoop finds the loop over the parameters in fd: `for … := range <over>`
func paramLoop(fd *ast.FuncDecl, over string) (*ast.RangeStmt, []ast.Stmt) {
	var found *ast.RangeStmt
	var after []ast.Stmt
	var visit func(list []ast.Stmt)
	visit = func(list []ast.Stmt) {
		for i, st := range list {
			if rs, ok := st.(*ast.RangeStmt); ok && exprString(rs.X) == over && rs.Key != nil && exprString(rs.Key) == "index" && rs.Value != nil {
				// the binding loop names both the index and the parameter
				found, after = rs, list[i+1:]
			}
			ast.Inspect(st, func(n ast.Node) bool {
				if _, ok := n.(*ast.FuncLit); ok {
					return false
				}
				switch b := n.(type) {
				case *ast.BlockStmt:
					if n != st {
						visit(b.List)
						return false
					}
				case *ast.CaseClause:
					visit(b.Body)
					return false
				}
				return true
			})
		}
	}
	visit(fd.Body.List)
	return found, after
}

// ---------------------------------------------------------------- main

// ---------------------------------------------------------------- named arguments
//
// Every binding loop first puts the arguments of the call into parameter order:
//
//	<args>, err := resolveNamedArguments(<params>, <args>)
//	if err != nil { return … }
//	for index, param := range <params> { … }
//
// resolvedBefore: that assignment, followed directly by the test of err, stands before the loop (and not inside a
// function literal).
func resolvedBefore(fd *ast.FuncDecl, loop *ast.RangeStmt) bool {
	found := false
	var visit func(list []ast.Stmt)
	visit = func(list []ast.Stmt) {
		for i, st := range list {
			if as, ok := st.(*ast.AssignStmt); ok && len(as.Rhs) == 1 && len(as.Lhs) == 2 && as.Pos() < loop.Pos() {
				if c, ok := as.Rhs[0].(*ast.CallExpr); ok && exprString(c.Fun) == "resolveNamedArguments" && len(c.Args) == 2 {
					errName := exprString(as.Lhs[1])
					if i+1 < len(list) && isNilTest(list[i+1], errName) {
						found = true
					}
				}
			}
			ast.Inspect(st, func(n ast.Node) bool {
				if _, ok := n.(*ast.FuncLit); ok {
					return false
				}
				switch b := n.(type) {
				case *ast.BlockStmt:
					if n != st {
						visit(b.List)
						return false
					}
				case *ast.CaseClause:
					visit(b.Body)
					return false
				}
				return true
			})
		}
	}
	visit(fd.Body.List)
	return found
}

// resolveShape: the text of resolveNamedArguments that Model.ArgNames.place / resolveFrom mirror
func resolveShape(fn func(file, recv, name string) *ast.FuncDecl) {
	h := fn("name_argument.go", "", "resolveNamedArguments")
	if h == nil {
		return
	}
	txt := nodeText(h.Body)
	for _, want := range []string{
		"if !hasNamedArgument(arguments) { return arguments, nil }",
		"for _, a := range arguments {",
		"na, ok := a.(*NamedArgument) if !ok { out = append(out, a) continue }",
		"idx := -1 for i, p := range params { if n, ok := p.(data.GetName); ok && n.GetName() == na.Name { idx = i break } }",
		"if idx < 0 { return nil, errors.New(",
		"for len(out) <= idx { out = append(out, omittedArg) }",
		"if !isOmittedArgument(out[idx]) { return nil, errors.New(",
		"out[idx] = na.Value } return out, nil",
	} {
		if !strings.Contains(txt, want) {
			note("resolveNamedArguments: %q not found", want)
		}
	}
	if h := fn("name_argument.go", "", "isOmittedArgument"); h != nil {
		if !strings.Contains(nodeText(h.Body), "_, ok := arg.(*omittedArgument) return ok") {
			note("isOmittedArgument: shape not recognised")
		}
	}
}

func main() {
	args := ex.ParseArgs()
	_, files, err := ex.ParseDir(args.Repo, "node")
	if err != nil {
		fmt.Fprintln(os.Stderr, "extract/c07:", err)
		os.Exit(1)
	}
	fn := func(file, recv, name string) *ast.FuncDecl {
		f := files[file]
		if f == nil {
			note("%s: file not found", file)
			return nil
		}
		fd := ex.FuncDecl(f, recv, name)
		if fd == nil {
			note("%s: %s.%s not found", file, recv, name)
		}
		return fd
	}
	type entry struct{ path, this, other string }
	var table []entry
	arrow := func(path, file, recv, name string) {
		fd := fn(file, recv, name)
		if fd == nil {
			table = append(table, entry{path, ".shapeChanged", ".shapeChanged"})
			return
		}
		ts := recvSwitch(fd)
		if ts == nil {
			note("%s %s.%s: receiver type switch not found", file, recv, name)
			table = append(table, entry{path, ".shapeChanged", ".shapeChanged"})
			return
		}
		sv := switchVar(ts)
		table = append(table, entry{path,
			classifyArrow(path+"/this", arm(ts, "*data.ThisValue"), sv),
			classifyArrow(path+"/other", arm(ts, "*data.ClassValue"), sv)})
	}
	index := func(path, name string) {
		fd := fn("index.go", "*IndexExpression", name)
		if fd == nil {
			table = append(table, entry{path, ".shapeChanged", ".shapeChanged"})
			return
		}
		ts := recvSwitch(fd)
		if ts == nil {
			note("index.go %s: receiver type switch not found", name)
			table = append(table, entry{path, ".shapeChanged", ".shapeChanged"})
			return
		}
		table = append(table, entry{path,
			classifyIndex(path+"/this", arm(ts, "*data.ThisValue"), true),
			classifyIndex(path+"/other", arm(ts, "*data.ClassValue"), false)})
	}
	both := func(path, c string) { table = append(table, entry{path, c, c}) }

	arrow("propRead", "call_object_property.go", "*CallObjectProperty", "GetValue")
	arrow("propWrite", "call_object_property.go", "*CallObjectProperty", "SetValue")
	arrow("methCall", "call_object_method.go", "*CallObjectMethod", "GetValue")
	arrow("dynPropRead", "call_object_dynamic_property.go", "*CallObjectDynamicProperty", "GetValue")
	arrow("dynPropWrite", "call_object_dynamic_property.go", "*CallObjectDynamicProperty", "SetValue")
	arrow("dynMeth", "call_object_dynamic_method.go", "*CallObjectDynamicMethod", "GetValue")
	index("idxRead", "GetValue")
	index("idxWrite", "SetValue")
	both("staticPropRead", classifyStaticProp("staticPropRead", fn("call_static_property.go", "*CallStaticProperty", "GetValue")))
	both("staticPropWrite", classifyStaticProp("staticPropWrite", fn("call_static_property.go", "*CallStaticProperty", "SetProperty")))
	both("staticMeth", classifyStaticMeth("staticMeth", fn("call_static_method.go", "*CallStaticMethod", "GetValue")))
	both("selfProp", classifyKeyword("selfProp", fn("call_self_property.go", "*CallSelfProperty", "GetValue")))
	both("selfMeth", classifyKeyword("selfMeth", fn("call_self_method.go", "*CallSelfMethod", "GetValue")))
	both("staticKwProp", classifyKeyword("staticKwProp", fn("call_static_keyword_property.go", "*CallStaticKeywordProperty", "GetValue")))
	both("staticKwMeth", classifyKeyword("staticKwMeth", fn("call_static_keyword_method.go", "*CallStaticKeywordMethod", "GetValue")))
	both("parentMeth", classifyParent("parentMeth", fn("call_parent_method.go", "*CallParentMethod", "GetValue")))

	// unset($o->p) / unset($o['p']): first and second receiver switch of UnsetStatement.GetValue
	if fd := fn("unset.go", "*UnsetStatement", "GetValue"); fd != nil {
		for i, path := range []string{"unsetProp", "unsetIdx"} {
			ts := recvSwitchN(fd, i)
			if ts == nil {
				note("unset.go: receiver type switch #%d not found", i)
				table = append(table, entry{path, ".shapeChanged", ".shapeChanged"})
				continue
			}
			sv := switchVar(ts)
			table = append(table, entry{path,
				classifyArrow(path+"/this", arm(ts, "*data.ThisValue"), sv),
				classifyArrow(path+"/other", arm(ts, "*data.ClassValue"), sv)})
		}
	} else {
		both("unsetProp", ".shapeChanged")
		both("unsetIdx", ".shapeChanged")
	}
	// foreach over an object: does foreachClassValue look at modifiers at all?
	if fd := fn("foreach.go", "*ForeachStatement", "foreachClassValue"); fd != nil {
		both("iterate", classifyIterate(fd))
	} else {
		both("iterate", ".shapeChanged")
	}

	// the helpers themselves: what the model's `inHierarchy` / `lexRule` mirror
	helperShapes(files, fn)

	// ---- boundaries
	type bentry struct{ name, kind string }
	var bounds []bentry
	storeKind := func(where string, fd *ast.FuncDecl) string {
		if fd == nil {
			return ".shapeChanged"
		}
		ts := recvSwitch(fd)
		if ts == nil {
			note("%s: receiver type switch not found", where)
			return ".shapeChanged"
		}
		a, b := hasIsGuard(arm(ts, "*data.ThisValue")), hasIsGuard(arm(ts, "*data.ClassValue"))
		switch {
		case a && b:
			return ".exact"
		case !a && !b:
			return ".unchecked"
		}
		note("%s: only one receiver arm tests the declared type", where)
		return ".shapeChanged"
	}
	bounds = append(bounds, bentry{"propStore", storeKind("propStore", fn("call_object_property.go", "*CallObjectProperty", "SetValue"))})
	bounds = append(bounds, bentry{"dynPropStore", storeKind("dynPropStore", fn("call_object_dynamic_property.go", "*CallObjectDynamicProperty", "SetValue"))})
	bounds = append(bounds, bentry{"idxStore", storeKind("idxStore", fn("index.go", "*IndexExpression", "SetValue"))})
	if fd := fn("call_static_property.go", "*CallStaticProperty", "SetProperty"); fd != nil {
		if containsCall(fd.Body, ".Is") {
			note("staticStore: a type test appeared; shape not recognised")
			bounds = append(bounds, bentry{"staticStore", ".shapeChanged"})
		} else {
			bounds = append(bounds, bentry{"staticStore", ".unchecked"})
		}
	} else {
		bounds = append(bounds, bentry{"staticStore", ".shapeChanged"})
	}
	if f := files["function.go"]; f != nil {
		nullAllowedFn = ex.FuncDecl(f, "*Parameter", "nullAllowed")
	}
	pk := paramSetValueKind(fn("function.go", "*Parameter", "SetValue"))
	// functions, static methods and constructors bind through paramSetValue → `case *Parameter:` → param.SetValue
	viaParamSetValue := ".shapeChanged"
	if fd := fn("new.go", "", "paramSetValue"); fd != nil {
		ok := false
		ast.Inspect(fd.Body, func(n ast.Node) bool {
			cc, isCC := n.(*ast.CaseClause)
			if !isCC {
				return true
			}
			for _, t := range cc.List {
				if exprString(t) == "*Parameter" && containsCall(&ast.BlockStmt{List: cc.Body}, "param.SetValue") {
					ok = true
				}
			}
			return true
		})
		if ok {
			viaParamSetValue = pk
		} else {
			viaParamSetValue = ".unchecked"
		}
	}
	bounds = append(bounds, bentry{"fnParam", viaParamSetValue})
	methParam := ".shapeChanged"
	if fd := fn("call_object_method.go", "*CallObjectMethod", "callMethodParams"); fd != nil {
		body := caseBody(fd, "*Parameter")
		switch {
		case body == nil:
			note("callMethodParams: case *Parameter not found")
		case containsCall(&ast.BlockStmt{List: body}, "p.SetValue"):
			methParam = pk
		case containsCall(&ast.BlockStmt{List: body}, "bindTypedParameter"):
			// the binding was factored into a helper shared with generic constructors: the helper
			// itself must end in Parameter.SetValue for every parameter that is not a type parameter
			if h := fn("call_object_method.go", "", "bindTypedParameter"); h != nil && containsCall(h.Body, "p.SetValue") {
				methParam = pk
			} else {
				note("callMethodParams: bindTypedParameter does not call p.SetValue")
			}
		default:
			methParam = ".unchecked"
		}
	}
	bounds = append(bounds, bentry{"methParam", methParam})
	bounds = append(bounds, bentry{"staticParam", viaParamSetValue})
	bounds = append(bounds, bentry{"ctorParam", viaParamSetValue})
	retKind := func(where string, fd *ast.FuncDecl) string {
		if fd == nil {
			return ".shapeChanged"
		}
		body := caseBody(fd, "data.ReturnControl")
		if body == nil {
			note("%s: case data.ReturnControl not found", where)
			return ".shapeChanged"
		}
		is := hasIsAccept(body) || hasIsGuard(body)
		null := hasNullBypass(body)
		switch {
		case is && null:
			return ".nullAlso"
		case is:
			return ".exact"
		}
		return ".unchecked"
	}
	bounds = append(bounds, bentry{"fnReturn", retKind("fnReturn", fn("function.go", "*FunctionStatement", "Call"))})
	bounds = append(bounds, bentry{"methReturn", retKind("methReturn", fn("class.go", "*ClassMethod", "Call"))})
	// closures are called through CallExpression → paramSetValue as well
	bounds = append(bounds, bentry{"closureParam", viaParamSetValue})
	bounds = append(bounds, bentry{"closureReturn", retKind("closureReturn", fn("lambda.go", "*LambdaExpression", "Call"))})
	promoted := ".shapeChanged"
	if fd := fn("new.go", "", "paramSetValue"); fd != nil {
		body := caseBodyMain(fd, "*PromotedParameter")
		switch {
		case body == nil:
			note("paramSetValue: case *PromotedParameter not found")
		case containsCall(&ast.BlockStmt{List: body}, "param.SetValue"):
			promoted = pk
		default:
			promoted = ".unchecked"
		}
	}
	bounds = append(bounds, bentry{"promotedParam", promoted})

	// `T ...$xs`: every packing site tests each collected argument with Parameters.checkElement (`Is` or error)
	variadic := ".shapeChanged"
	{
		sites := 0
		calls := 0
		for _, x := range []struct{ file, recv, name, call string }{
			{"new.go", "", "paramSetValue", "param.checkElement"},
			{"call_object_method.go", "*CallObjectMethod", "callMethodParams", "p.checkElement"},
			{"call_method.go", "*CallMethod", "handleFuncValue", "argObj.checkElement"},
		} {
			fd := fn(x.file, x.recv, x.name)
			if fd == nil {
				continue
			}
			body := caseBodyMain(fd, "*Parameters")
			if body == nil {
				note("%s: case *Parameters not found", x.name)
				continue
			}
			sites++
			if containsCall(&ast.BlockStmt{List: body}, x.call) {
				calls++
			} else if containsCall(&ast.BlockStmt{List: body}, "checkVariadicElement") && variadicHelperOK(fn(x.file, "", "checkVariadicElement")) {
				// the wrapper of the generic path (type parameter → type argument of the instantiation, C19's
				// concern); every other declared type goes to Parameters.checkElement unchanged
				calls++
			}
		}
		var ce *ast.FuncDecl
		if f := files["function.go"]; f != nil {
			ce = ex.FuncDecl(f, "*Parameters", "checkElement")
		}
		switch {
		case sites == 3 && calls == 3 && ce != nil && containsCall(ce.Body, "p.Type.Is") && returnsError(ce.Body.List):
			variadic = ".exact"
		case sites == 3 && calls == 0:
			variadic = ".unchecked"
		default:
			note("variadicParam: %d of %d packing sites test the collected arguments", calls, sites)
		}
	}
	bounds = append(bounds, bentry{"variadicParam", variadic})

	// ---- the binding loops
	type lentry struct{ name, shape string }
	var loops []lentry
	type nentry struct {
		name  string
		first bool
	}
	var named []nentry
	for _, x := range []struct{ name, file, recv, fn, over string }{
		{"fn", "call.go", "*CallExpression", "GetValue", "params"},
		{"ctor", "new.go", "", "createInstanceFromClassStmt", "params"},
		{"method", "call_object_method.go", "*CallObjectMethod", "callMethodParams", "params"},
		{"funcValue", "call_method.go", "*CallMethod", "handleFuncValue", "fn.GetParams()"},
	} {
		fd := fn(x.file, x.recv, x.fn)
		if fd == nil {
			loops = append(loops, lentry{x.name, ".shapeChanged"})
			named = append(named, nentry{x.name, false})
			continue
		}
		loop, after := paramLoop(fd, x.over)
		if loop == nil {
			note("%s %s: the loop over the parameters was not found", x.file, x.fn)
			loops = append(loops, lentry{x.name, ".shapeChanged"})
			named = append(named, nentry{x.name, false})
			continue
		}
		loops = append(loops, lentry{x.name, loopShape(x.file+" "+x.fn, loop, after, nilTested(fd))})
		named = append(named, nentry{x.name, resolvedBefore(fd, loop)})
	}
	resolveShape(fn)

	// ---- enforcement on every evaluation
	memoScan(files, map[string]bool{
		"*CallObjectProperty.SetValue": true, "*CallObjectDynamicProperty.SetValue": true, "*Parameter.SetValue": true,
		"*FunctionStatement.Call": true, "*ClassMethod.Call": true, "callMethodParams": true, "paramSetValue": true,
	})
	abstractFirst, validateEvery := instGlue(files)

	// ---- declaration keywords → modifier set (lean/Generated/C07Decl.lean; its notes join shapeNotes below)
	nDecl, err := declFacts(args.Repo, args.Out)
	if err != nil {
		fmt.Fprintln(os.Stderr, "extract/c07:", err)
		os.Exit(1)
	}

	// ---- emit
	var sb strings.Builder
	sb.WriteString("import Model.Access\nimport Model.Types\nimport Model.Inst\nimport Model.AccessDecl\nimport Model.ScopeEntry\n")
	sb.WriteString("/-! Which modifier test each arm of each access node performs, and what each typed boundary does with the\ndeclared type (see `extract/c07/main.go` for the syntactic shapes that are recognised). -/\n")
	sb.WriteString("namespace Generated.C07Access\nopen Model.Access Model.Types\n\n")
	sb.WriteString("def table : Table := fun p r =>\n  match p, r with\n")
	for _, e := range table {
		fmt.Fprintf(&sb, "  | .%s, .this => %s\n  | .%s, .other => %s\n", e.path, e.this, e.path, e.other)
	}
	sb.WriteString("\ndef boundary : Boundary → BKind\n")
	for _, b := range bounds {
		fmt.Fprintf(&sb, "  | .%s => %s\n", b.name, b.kind)
	}
	sb.WriteString("\n/-- what each binding loop does with the result of binding one parameter -/\ndef bindLoops : List (String × LoopShape) := [")
	for i, l := range loops {
		if i > 0 {
			sb.WriteString(", ")
		}
		fmt.Fprintf(&sb, "(%s, %s)", ex.LeanString(l.name), l.shape)
	}
	sb.WriteString("]\n")
	sb.WriteString("\n/-- does the function put the arguments into parameter order (`resolveNamedArguments`, error tested) before its\nbinding loop -/\ndef namedFirst : List (String × Bool) := [")
	for i, l := range named {
		if i > 0 {
			sb.WriteString(", ")
		}
		fmt.Fprintf(&sb, "(%s, %v)", ex.LeanString(l.name), l.first)
	}
	sb.WriteString("]\n")
	fmt.Fprintf(&sb, "\n/-- which relation between the receiver's class and the scope class `canAccessDeclared` asks for before it\ngrants the scope class's own same-named member -/\ndef fallbackRel : Model.AccessDecl.Fallback := %s\n", fallbackRel)
	fmt.Fprintf(&sb, "\n/-- which class `canAccessDeclared` hands to `canAccessMember` for a protected member: the nearest declaration\nthe walk stopped at, or a class further up -/\ndef judgeRel : Model.AccessDecl.Judge := %s\n", judgeRel)
	sb.WriteString("\n/-- the ways a body written in a class comes to run (exits of `ClassMethod.Call`, closure, function declared in a\nmethod) and whether each records the class of the code before a statement of the body can run -/\ndef entryPaths : List Model.ScopeEntry.Entry := [")
	for i, e := range entryPaths {
		if i > 0 {
			sb.WriteString(", ")
		}
		fmt.Fprintf(&sb, "⟨%s, %v⟩", ex.LeanString(e.name), e.records)
	}
	sb.WriteString("]\n")
	fmt.Fprintf(&sb, "\n/-- does `new` run the abstract test first and the completeness validation on every call -/\ndef instGlue : Model.Inst.Glue := ⟨%v, %v⟩\n", abstractFirst, validateEvery)
	sort.Strings(notes)
	{
		var uniq []string
		for i, n := range notes {
			if i == 0 || n != notes[i-1] {
				uniq = append(uniq, n)
			}
		}
		notes = uniq
	}
	sb.WriteString("\n/-- where the translator did not find the shape it expects -/\ndef shapeNotes : List String := [")
	for i, n := range notes {
		if i > 0 {
			sb.WriteString(", ")
		}
		sb.WriteString(ex.LeanString(n))
	}
	sb.WriteString("]\n\nend Generated.C07Access\n")
	if err := ex.WriteIfChanged(args.Out, "C07Access.lean", sb.String()); err != nil {
		fmt.Fprintln(os.Stderr, "extract/c07:", err)
		os.Exit(1)
	}
	fmt.Printf("c07: %d access arms, %d boundaries, %d binding loops, %d declaration-keyword parsers, %d shape notes\n", 2*len(table), len(bounds), len(loops), nDecl, len(notes))
	for _, n := range notes {
		fmt.Println("  note:", n)
	}
}
