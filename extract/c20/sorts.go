// Sort facts (round 5): for every `for … range <map>` site whose body only appends to slices that are
// sorted later in the function (summary appendSorted), what the sort compares.
//
// The order in which the loop collects is Go's randomised map order; the claim "the sorted result
// does not depend on it" holds exactly when the comparator cannot tie on two different collected
// elements (Pattern_sort_perm_iff). What can be read off the source:
//
//	whole    the sort orders the elements themselves: sort.Strings / sort.Ints / slices.Sort on the
//	         slice, or a comparator all of whose results are `S[i] < S[j]` / `S[i] > S[j]` (through
//	         local aliases `ki := S[i]`), `strings.Compare(a, b)` / `cmp.Compare(a, b)` on the two
//	         parameters of a slices.SortFunc comparator — on elements of string or integer type, the
//	         branch conditions around the results not mentioning the elements. Two elements that tie
//	         are then equal, so nothing distinguishes the arrangements.
//	derived  anything else: the elements go through a function, a field, a method, a conversion
//	         (`numericSortKey(ki) < numericSortKey(kj)`, `len(keys[i]) > len(keys[j])`,
//	         `ms[i].GetName() < ms[j].GetName()`), the comparator is a named function or a
//	         sort.Interface — different elements may compare equal unless argued otherwise by hand.
//
// `cmpText` is the normalised text of the comparator's result expressions (aliases substituted), so
// that a hand-made argument in Proofs/C20Sites.lean is tied to the comparator it was made for.
package main

import (
	"fmt"
	"go/ast"
	"go/token"
	"go/types"
	"os"
	"sort"
	"strings"

	"verif/extract/ex"
)

type sortFact struct {
	target  string // the slice the loop appends to
	elem    string // key | value | other  — what the loop appends (the range key variable itself, the range value variable, something else)
	elemTxt string
	sorter  string // sort.Slice, sort.Strings, slices.SortFunc …
	stable  bool
	cmp     string // whole | derived
	cmpText string
	line    int
}

// appendedExprs: the expressions appended to `target` inside the loop body
func appendedExprs(body *ast.BlockStmt, target string) []ast.Expr {
	var res []ast.Expr
	ast.Inspect(body, func(n ast.Node) bool {
		as, ok := n.(*ast.AssignStmt)
		if !ok || len(as.Lhs) != 1 || len(as.Rhs) != 1 {
			return true
		}
		c, ok := as.Rhs[0].(*ast.CallExpr)
		if !ok {
			return true
		}
		if id, ok := c.Fun.(*ast.Ident); !ok || id.Name != "append" || len(c.Args) < 2 {
			return true
		}
		if types.ExprString(as.Lhs[0]) != target || types.ExprString(c.Args[0]) != target {
			return true
		}
		res = append(res, c.Args[1:]...)
		return true
	})
	return res
}

func isOrderedBasic(t types.Type) bool {
	if t == nil {
		return false
	}
	b, ok := t.Underlying().(*types.Basic)
	if !ok {
		return false
	}
	return b.Info()&types.IsString != 0 || b.Info()&types.IsInteger != 0
}

func mentions(e ast.Node, names map[string]bool) bool {
	found := false
	ast.Inspect(e, func(n ast.Node) bool {
		if id, ok := n.(*ast.Ident); ok && names[id.Name] {
			found = true
		}
		return !found
	})
	return found
}

// substitute the aliases (`ki := keys[i]`) into the text of an expression
func substText(e ast.Expr, alias map[string]string) string {
	var walk func(e ast.Expr) string
	walk = func(e ast.Expr) string {
		switch x := e.(type) {
		case *ast.Ident:
			if t, ok := alias[x.Name]; ok {
				return t
			}
			return x.Name
		case *ast.BinaryExpr:
			return walk(x.X) + " " + x.Op.String() + " " + walk(x.Y)
		case *ast.ParenExpr:
			return "(" + walk(x.X) + ")"
		case *ast.CallExpr:
			var as []string
			for _, a := range x.Args {
				as = append(as, walk(a))
			}
			return walk(x.Fun) + "(" + strings.Join(as, ", ") + ")"
		case *ast.SelectorExpr:
			return walk(x.X) + "." + x.Sel.Name
		case *ast.IndexExpr:
			return walk(x.X) + "[" + walk(x.Index) + "]"
		case *ast.UnaryExpr:
			return x.Op.String() + walk(x.X)
		case *ast.StarExpr:
			return "*" + walk(x.X)
		}
		return types.ExprString(e)
	}
	return walk(e)
}

// comparator of an index-based sort (sort.Slice / SliceStable): func(i, j int) bool over slice S
// comparator of a value-based sort (slices.SortFunc / SortStableFunc): func(a, b T) int
func analyseComparator(info *types.Info, fl *ast.FuncLit, slice string, indexBased bool) (string, string) {
	var params []string
	for _, f := range fl.Type.Params.List {
		for _, n := range f.Names {
			params = append(params, n.Name)
		}
	}
	if len(params) != 2 {
		return "derived", "func literal with " + fmt.Sprint(len(params)) + " parameters"
	}
	pi, pj := params[0], params[1]
	// the two "whole element" operands
	var wi, wj string
	elemOK := false
	if indexBased {
		wi, wj = slice+"["+pi+"]", slice+"["+pj+"]"
	} else {
		wi, wj = pi, pj
	}
	alias := map[string]string{}
	elementNames := map[string]bool{pi: true, pj: true}
	var returns []string
	whole := true
	var walk func(list []ast.Stmt)
	checkCond := func(e ast.Expr) {
		if e != nil && mentions(e, elementNames) {
			whole = false
		}
	}
	walk = func(list []ast.Stmt) {
		for _, s := range list {
			switch st := s.(type) {
			case *ast.AssignStmt:
				// ki := S[i]
				if st.Tok == token.DEFINE && len(st.Lhs) == len(st.Rhs) {
					for k := range st.Lhs {
						id, ok := st.Lhs[k].(*ast.Ident)
						if !ok {
							whole = false
							continue
						}
						txt := substText(st.Rhs[k], alias)
						alias[id.Name] = txt
						if mentions(st.Rhs[k], elementNames) {
							elementNames[id.Name] = true
						}
					}
				} else {
					whole = false
				}
			case *ast.DeclStmt:
				whole = false
			case *ast.ReturnStmt:
				if len(st.Results) != 1 {
					whole = false
					returns = append(returns, "return")
					continue
				}
				r := st.Results[0]
				txt := substText(r, alias)
				returns = append(returns, txt)
				ok := false
				switch x := r.(type) {
				case *ast.BinaryExpr:
					if x.Op == token.LSS || x.Op == token.GTR {
						a, b := substText(x.X, alias), substText(x.Y, alias)
						if (a == wi && b == wj) || (a == wj && b == wi) {
							ok = true
							if t := info.TypeOf(x.X); isOrderedBasic(t) {
								elemOK = true
							} else {
								ok = false
							}
						}
					}
				case *ast.CallExpr:
					// strings.Compare(a, b) / cmp.Compare(a, b)
					name := callName(x)
					if !indexBased && (name == "strings.Compare" || name == "cmp.Compare") && len(x.Args) == 2 {
						a, b := substText(x.Args[0], alias), substText(x.Args[1], alias)
						if (a == wi && b == wj) || (a == wj && b == wi) {
							if isOrderedBasic(info.TypeOf(x.Args[0])) {
								ok, elemOK = true, true
							}
						}
					}
				}
				if !ok {
					whole = false
				}
			case *ast.IfStmt:
				if st.Init != nil {
					whole = false
				}
				checkCond(st.Cond)
				walk(st.Body.List)
				if st.Else != nil {
					walk([]ast.Stmt{st.Else})
				}
			case *ast.BlockStmt:
				walk(st.List)
			case *ast.SwitchStmt:
				if st.Init != nil {
					whole = false
				}
				checkCond(st.Tag)
				for _, c := range st.Body.List {
					cc := c.(*ast.CaseClause)
					for _, e := range cc.List {
						checkCond(e)
					}
					walk(cc.Body)
				}
			case *ast.BranchStmt:
				if st.Tok != token.FALLTHROUGH {
					whole = false
				}
			case *ast.EmptyStmt:
			default:
				whole = false
			}
		}
	}
	walk(fl.Body.List)
	// distinct result expressions, in source order
	seen := map[string]bool{}
	var uniq []string
	for _, r := range returns {
		if !seen[r] {
			seen[r] = true
			uniq = append(uniq, r)
		}
	}
	text := strings.Join(uniq, " | ")
	if len(returns) == 0 {
		return "derived", "comparator without a result"
	}
	if whole && elemOK {
		return "whole", text
	}
	return "derived", text
}

// sortCallsAfter: the sort calls on `target` after position `after` inside fnBody
func sortCallsAfter(fnBody *ast.BlockStmt, after token.Pos, target string) []*ast.CallExpr {
	var res []*ast.CallExpr
	ast.Inspect(fnBody, func(n ast.Node) bool {
		c, ok := n.(*ast.CallExpr)
		if !ok || c.Pos() < after {
			return true
		}
		sel, ok := c.Fun.(*ast.SelectorExpr)
		if !ok {
			return true
		}
		pk, ok := sel.X.(*ast.Ident)
		if !ok || (pk.Name != "sort" && pk.Name != "slices") || len(c.Args) == 0 {
			return true
		}
		if !strings.HasPrefix(sel.Sel.Name, "S") {
			return true
		}
		if strings.Contains(types.ExprString(c.Args[0]), target) {
			res = append(res, c)
		}
		return true
	})
	return res
}

func sortFactsFor(fset *token.FileSet, info *types.Info, rs *ast.RangeStmt, fnBody *ast.BlockStmt, targets []string) []sortFact {
	var res []sortFact
	keyName, valName := "", ""
	if id, ok := rs.Key.(*ast.Ident); ok {
		keyName = id.Name
	}
	if id, ok := rs.Value.(*ast.Ident); ok {
		valName = id.Name
	}
	for _, t := range targets {
		elem, elemTxt := "other", ""
		var txts []string
		allKey, allVal := true, true
		for _, e := range appendedExprs(rs.Body, t) {
			s := types.ExprString(e)
			txts = append(txts, s)
			if s != keyName || keyName == "" || keyName == "_" {
				allKey = false
			}
			if s != valName || valName == "" || valName == "_" {
				allVal = false
			}
		}
		elemTxt = strings.Join(txts, ", ")
		if len(txts) > 0 && allKey {
			elem = "key"
		} else if len(txts) > 0 && allVal {
			elem = "value"
		}
		calls := sortCallsAfter(fnBody, rs.End(), t)
		if len(calls) == 0 {
			shape = append(shape, "sorted-afterwards site without a recognisable sort call: "+t)
			continue
		}
		for _, c := range calls {
			name := callName(c)
			f := sortFact{target: t, elem: elem, elemTxt: elemTxt, sorter: name, line: fset.Position(c.Pos()).Line}
			f.stable = strings.Contains(name, "Stable")
			argIsTarget := types.ExprString(c.Args[0]) == t
			switch name {
			case "sort.Strings", "sort.Ints", "slices.Sort":
				if argIsTarget && isOrderedBasicSlice(info.TypeOf(c.Args[0])) {
					f.cmp, f.cmpText = "whole", "natural order of the elements"
				} else {
					f.cmp, f.cmpText = "derived", name+"("+types.ExprString(c.Args[0])+")"
				}
			case "sort.Slice", "sort.SliceStable", "slices.SortFunc", "slices.SortStableFunc":
				fl, ok := (ast.Expr)(nil), false
				if len(c.Args) == 2 {
					fl, ok = c.Args[1], true
				}
				lit, isLit := fl.(*ast.FuncLit)
				if !ok || !isLit || !argIsTarget {
					f.cmp, f.cmpText = "derived", name+"("+exprTexts(c.Args)+")"
				} else {
					f.cmp, f.cmpText = analyseComparator(info, lit, t, strings.HasPrefix(name, "sort."))
				}
			default: // sort.Sort, sort.Stable, sort.Float64s (NaN), anything else
				f.cmp, f.cmpText = "derived", name+"("+exprTexts(c.Args)+")"
			}
			res = append(res, f)
		}
	}
	return res
}

func exprTexts(es []ast.Expr) string {
	var s []string
	for _, e := range es {
		t := types.ExprString(e)
		if len(t) > 80 {
			t = t[:80] + "…"
		}
		s = append(s, t)
	}
	return strings.Join(s, ", ")
}

func isOrderedBasicSlice(t types.Type) bool {
	if t == nil {
		return false
	}
	sl, ok := t.Underlying().(*types.Slice)
	return ok && isOrderedBasic(sl.Elem())
}

func emitSorts(a ex.Args, sites []site) {
	var sb strings.Builder
	sb.WriteString("import Model.Sites\n")
	sb.WriteString("/-! For every `for … range <map>` site whose collected slice is sorted afterwards: what the sort\ncompares (`whole` = the elements themselves, of string or integer type; `derived` = the elements seen\nthrough a function, method, field or conversion, or a comparator the translator cannot read), with the\nnormalised text of the comparator's result expressions. Line numbers are in comments only. -/\n")
	sb.WriteString("namespace Generated.C20Sorts\nopen Model.Sites\n\n")
	sb.WriteString("def sorts : List SortFact := [\n")
	var lines []string
	n := 0
	for _, s := range sites {
		for _, f := range s.sorts {
			n++
			lines = append(lines, fmt.Sprintf("  ⟨%s, %s, %s, %d, %s, .%s, %s, %v, .%s, %s⟩",
				ex.LeanString(s.file), ex.LeanString(s.fn), ex.LeanString(s.expr), s.ord, ex.LeanString(f.target), f.elem, ex.LeanString(f.sorter), f.stable, f.cmp, ex.LeanString(f.cmpText))+
				fmt.Sprintf("\x00  -- line %d: appends %s", f.line, f.elemTxt))
		}
	}
	for i, l := range lines {
		parts := strings.SplitN(l, "\x00", 2)
		comma := ","
		if i == len(lines)-1 {
			comma = ""
		}
		sb.WriteString(parts[0] + comma + parts[1] + "\n")
	}
	sb.WriteString("]\n\n")
	var sh []string
	for _, s := range shape {
		if strings.HasPrefix(s, "sorted-afterwards") {
			sh = append(sh, s)
		}
	}
	sort.Strings(sh)
	sb.WriteString("def shape : List String := [")
	for i, s := range sh {
		if i > 0 {
			sb.WriteString(", ")
		}
		sb.WriteString(ex.LeanString(s))
	}
	sb.WriteString("]\n\nend Generated.C20Sorts\n")
	if err := ex.WriteIfChanged(a.Out, "C20Sorts.lean", sb.String()); err != nil {
		fmt.Fprintln(os.Stderr, err)
		os.Exit(1)
	}
	fmt.Printf("c20: %d sorts over map-ordered slices\n", n)
}
