// extract/c20: regenerates lean/Generated/C20MapRanges.lean and
// lean/Generated/C20PkgState.lean from the repository source.
//
// The anchored packages (runtime, data, node, std/php, std/php/core,
// std/php/spl, plus std/protowire and std/serializer/json for DESIGN §4 row 25)
// are type-checked from source (go/types; imports are satisfied from the export
// data `go list -export -deps` reports — origami code is compiled, never
// executed).
//
// C20MapRanges: every `for … range X` whose X has a map type (and every
// range over maps.Keys/Values/All or reflect MapKeys/MapRange), keyed by
// (file, enclosing function, text of X, ordinal among equal keys) — never by
// line number, so that unrelated edits of a file do not move a site — with a
// cheap syntactic summary of what the body does:
//
//	writesMap      only writes m[k] = v / delete(m, k) / x.f[k] = v into maps
//	appendSorted   only appends to slices, each of which is sorted later in the function
//	appendUnsorted only appends, some target is not sorted afterwards
//	accumulate     only x += e, x++, x |= e … on non-string operands
//	concat         s += e on a string (order reaches the result)
//	sortedKeys     the ranged expression is slices.Sorted(maps.Keys(m)): keys visited in ascending order
//	exitsEarly     contains return / break out of this loop (first match)
//	empty          no effect at all
//	other          anything else (calls, mixed effects)
//
// C20PkgState: every package-level variable of those packages that is written
// outside `init` and outside its own initialiser: assignment (direct or
// through an index / field / dereference chain), ++/--, address taken, or a
// pointer-receiver method called on it (kind `method`). Writes are looked for
// in the whole repository (syntactically outside the type-checked packages:
// `alias.Name` resolved through the file's imports).
//
// Anything the extractor cannot process becomes a `shape` entry, which fails
// the obligation in Proofs/Properties/C20.lean.
package main

import (
	"encoding/json"
	"fmt"
	"go/ast"
	"go/importer"
	"go/parser"
	"go/token"
	"go/types"
	"io"
	"os"
	"os/exec"
	"path/filepath"
	"sort"
	"strings"

	"verif/extract/ex"
)

const modPath = "github.com/php-any/origami"

// package directories (relative to the repository root) whose map ranges are reported: the
// anchored packages, the two decoders of DESIGN §4 row 25, the parser (class loading) and the
// string-keyed-array functions of std/php/array
var rangeTargets = []string{"runtime", "data", "node", "parser", "std/php", "std/php/core", "std/php/spl", "std/php/array", "std/protowire", "std/serializer/json"}

// package-level state is a whole-process notion: every origami package linked into the
// interpreter binary (go list -deps .) is scanned, except the command-line tooling (cmd/…,
// internal/…), which a running script does not reach.
var targets []string

func stateScope(p string) bool {
	return !strings.HasPrefix(p, "cmd") && !strings.HasPrefix(p, "internal") && p != ""
}

type listPkg struct {
	ImportPath string
	Dir        string
	Export     string
	GoFiles    []string
	CgoFiles   []string
	Error      *struct{ Err string }
}

type site struct {
	file, fn, expr string
	ord            int
	summary        string
	detail         string
	line           int
	sorts          []sortFact // summary appendSorted: what each sort of a collected slice compares
}

type write struct {
	pkg, name string // declaring package dir, variable
	file, fn  string // where written
	kind      string // assign | index | field | incdec | addr | method:<M> | deref
}

type pkgVar struct {
	pkg, name, file, typ string
}

var shape []string

func goEnv() []string {
	var e []string
	for _, kv := range os.Environ() {
		if strings.HasPrefix(kv, "GOTOOLCHAIN=") || strings.HasPrefix(kv, "GOSUMDB=") || strings.HasPrefix(kv, "GOFLAGS=") || strings.HasPrefix(kv, "GOPROXY=") {
			continue
		}
		e = append(e, kv)
	}
	return append(e, "GOFLAGS=-mod=mod", "GOPROXY=off")
}

func goList(repo string, args ...string) ([]listPkg, error) {
	cmd := exec.Command("go", append([]string{"list", "-e", "-json=ImportPath,Dir,Export,GoFiles,CgoFiles,Error"}, args...)...)
	cmd.Dir = repo
	cmd.Env = goEnv()
	var stderr strings.Builder
	cmd.Stderr = &stderr
	out, err := cmd.Output()
	if err != nil {
		return nil, fmt.Errorf("go list: %v: %s", err, stderr.String())
	}
	dec := json.NewDecoder(strings.NewReader(string(out)))
	var res []listPkg
	for {
		var p listPkg
		if err := dec.Decode(&p); err == io.EOF {
			break
		} else if err != nil {
			return nil, err
		}
		res = append(res, p)
	}
	return res, nil
}

func recvName(fd *ast.FuncDecl) string {
	if fd.Recv == nil || len(fd.Recv.List) == 0 {
		return fd.Name.Name
	}
	t := fd.Recv.List[0].Type
	if s, ok := t.(*ast.StarExpr); ok {
		t = s.X
	}
	if ix, ok := t.(*ast.IndexExpr); ok {
		t = ix.X
	}
	return ex.TypeString(t) + "." + fd.Name.Name
}

// ---------------------------------------------------------------- range summary

type bodyFx struct {
	mapWrite, appendTo, accum, concat, other, exits int
	appendTargets                                   map[string]bool
	calls                                           map[string]bool
}

func isMap(info *types.Info, e ast.Expr) bool {
	t := info.TypeOf(e)
	if t == nil {
		return false
	}
	_, ok := t.Underlying().(*types.Map)
	return ok
}

// lhsIsMapIndex: m[k] (m a map), possibly behind selectors
func lhsIsMapIndex(info *types.Info, e ast.Expr) bool {
	ix, ok := e.(*ast.IndexExpr)
	return ok && isMap(info, ix.X)
}

func callName(c *ast.CallExpr) string {
	switch f := c.Fun.(type) {
	case *ast.Ident:
		return f.Name
	case *ast.SelectorExpr:
		return types.ExprString(f)
	}
	return "<fn>"
}

// summarise walks the body of one range statement. depth counts enclosing
// loops/switches *inside* the body, so that a `break` is attributed correctly.
func (fx *bodyFx) stmts(info *types.Info, list []ast.Stmt, breakDepth int, defined map[string]bool) {
	for _, s := range list {
		fx.stmt(info, s, breakDepth, defined)
	}
}

func (fx *bodyFx) expr(e ast.Expr) {
	// calls inside expressions are recorded for the detail string only
	ast.Inspect(e, func(n ast.Node) bool {
		if c, ok := n.(*ast.CallExpr); ok {
			fx.calls[callName(c)] = true
		}
		if _, ok := n.(*ast.FuncLit); ok {
			return false
		}
		return true
	})
}

func (fx *bodyFx) stmt(info *types.Info, s ast.Stmt, breakDepth int, defined map[string]bool) {
	switch st := s.(type) {
	case nil, *ast.EmptyStmt:
	case *ast.BlockStmt:
		fx.stmts(info, st.List, breakDepth, defined)
	case *ast.IfStmt:
		if st.Init != nil {
			fx.stmt(info, st.Init, breakDepth, defined)
		}
		fx.expr(st.Cond)
		fx.stmts(info, st.Body.List, breakDepth, defined)
		if st.Else != nil {
			fx.stmt(info, st.Else, breakDepth, defined)
		}
	case *ast.ReturnStmt:
		fx.exits++
	case *ast.BranchStmt:
		switch st.Tok {
		case token.BREAK:
			if breakDepth == 0 || st.Label != nil {
				fx.exits++
			}
		case token.GOTO:
			fx.exits++
		case token.CONTINUE:
		}
	case *ast.DeclStmt:
		if gd, ok := st.Decl.(*ast.GenDecl); ok {
			for _, sp := range gd.Specs {
				if vs, ok := sp.(*ast.ValueSpec); ok {
					for _, n := range vs.Names {
						defined[n.Name] = true
					}
					for _, v := range vs.Values {
						fx.expr(v)
					}
				}
			}
		}
	case *ast.IncDecStmt:
		if id, ok := st.X.(*ast.Ident); ok && defined[id.Name] {
			return
		}
		fx.accum++
	case *ast.AssignStmt:
		for _, r := range st.Rhs {
			fx.expr(r)
		}
		if st.Tok == token.DEFINE {
			for _, l := range st.Lhs {
				if id, ok := l.(*ast.Ident); ok {
					defined[id.Name] = true
				}
			}
			return
		}
		// x = append(x, …)
		if len(st.Lhs) == 1 && len(st.Rhs) == 1 && st.Tok == token.ASSIGN {
			if c, ok := st.Rhs[0].(*ast.CallExpr); ok {
				if id, ok := c.Fun.(*ast.Ident); ok && id.Name == "append" && len(c.Args) > 0 &&
					types.ExprString(c.Args[0]) == types.ExprString(st.Lhs[0]) {
					if lid, ok := st.Lhs[0].(*ast.Ident); ok && defined[lid.Name] {
						return // a slice local to one iteration
					}
					fx.appendTo++
					fx.appendTargets[types.ExprString(st.Lhs[0])] = true
					return
				}
			}
		}
		for _, l := range st.Lhs {
			switch {
			case lhsIsMapIndex(info, l):
				fx.mapWrite++
			case st.Tok != token.ASSIGN: // += |= …
				if id, ok := l.(*ast.Ident); ok && defined[id.Name] {
					continue
				}
				if t := info.TypeOf(l); t != nil {
					if b, ok := t.Underlying().(*types.Basic); ok && b.Info()&types.IsString != 0 {
						fx.concat++ // string concatenation: order reaches the result
						continue
					}
				}
				fx.accum++
			default:
				if id, ok := l.(*ast.Ident); ok && (defined[id.Name] || id.Name == "_") {
					continue
				}
				fx.other++
			}
		}
	case *ast.ExprStmt:
		if c, ok := st.X.(*ast.CallExpr); ok {
			if id, ok := c.Fun.(*ast.Ident); ok && id.Name == "delete" && len(c.Args) == 2 && isMap(info, c.Args[0]) {
				fx.mapWrite++
				return
			}
		}
		fx.expr(st.X)
		fx.other++
	case *ast.ForStmt:
		if st.Init != nil {
			fx.stmt(info, st.Init, breakDepth+1, defined)
		}
		if st.Post != nil {
			// loop counters of nested loops are iteration-local
			if ids, ok := st.Post.(*ast.IncDecStmt); ok {
				if id, ok := ids.X.(*ast.Ident); !ok || !defined[id.Name] {
					fx.accum++
				}
			}
		}
		fx.stmts(info, st.Body.List, breakDepth+1, defined)
	case *ast.RangeStmt:
		if st.Tok == token.DEFINE {
			for _, e := range []ast.Expr{st.Key, st.Value} {
				if id, ok := e.(*ast.Ident); ok {
					defined[id.Name] = true
				}
			}
		}
		fx.expr(st.X)
		fx.stmts(info, st.Body.List, breakDepth+1, defined)
	case *ast.SwitchStmt:
		if st.Init != nil {
			fx.stmt(info, st.Init, breakDepth+1, defined)
		}
		for _, c := range st.Body.List {
			fx.stmts(info, c.(*ast.CaseClause).Body, breakDepth+1, defined)
		}
	case *ast.TypeSwitchStmt:
		if st.Init != nil {
			fx.stmt(info, st.Init, breakDepth+1, defined)
		}
		fx.stmt(info, st.Assign, breakDepth+1, defined)
		for _, c := range st.Body.List {
			fx.stmts(info, c.(*ast.CaseClause).Body, breakDepth+1, defined)
		}
	case *ast.LabeledStmt:
		fx.stmt(info, st.Stmt, breakDepth, defined)
	default: // go, defer, select, send …
		fx.other++
	}
}

// sortedAfter: after position `after`, inside fnBody, is there a call
// sort.X(target, …) / slices.SortX(target, …) / sort.Sort(…(target))?
func sortedAfter(fnBody *ast.BlockStmt, after token.Pos, target string) bool {
	found := false
	ast.Inspect(fnBody, func(n ast.Node) bool {
		c, ok := n.(*ast.CallExpr)
		if !ok || c.Pos() < after {
			return true
		}
		sel, ok := c.Fun.(*ast.SelectorExpr)
		if !ok {
			return true
		}
		pk, ok := sel.X.(*ast.Ident)
		if !ok || (pk.Name != "sort" && pk.Name != "slices") || len(c.Args) == 0 {
			return true
		}
		if !strings.HasPrefix(sel.Sel.Name, "S") { // Sort, Slice, SliceStable, Strings, Stable, SortFunc, SortStableFunc
			return true
		}
		if strings.Contains(types.ExprString(c.Args[0]), target) {
			found = true
		}
		return true
	})
	return found
}

func summarise(info *types.Info, rs *ast.RangeStmt, fnBody *ast.BlockStmt) (string, string, []string) {
	fx := &bodyFx{appendTargets: map[string]bool{}, calls: map[string]bool{}}
	defined := map[string]bool{}
	if rs.Tok == token.DEFINE {
		for _, e := range []ast.Expr{rs.Key, rs.Value} {
			if id, ok := e.(*ast.Ident); ok {
				defined[id.Name] = true
			}
		}
	}
	fx.stmts(info, rs.Body.List, 0, defined)
	var calls []string
	for c := range fx.calls {
		calls = append(calls, c)
	}
	sort.Strings(calls)
	detail := fmt.Sprintf("mapWrite=%d append=%d accum=%d concat=%d other=%d exits=%d calls=%s", fx.mapWrite, fx.appendTo, fx.accum, fx.concat, fx.other, fx.exits, strings.Join(calls, ","))
	switch {
	case fx.exits > 0:
		return "exitsEarly", detail, nil
	case fx.concat > 0:
		return "concat", detail, nil
	case fx.other > 0:
		return "other", detail, nil
	case fx.mapWrite+fx.appendTo+fx.accum == 0:
		return "empty", detail, nil
	case fx.appendTo == 0 && fx.accum == 0:
		return "writesMap", detail, nil
	case fx.mapWrite == 0 && fx.accum == 0:
		var ts []string
		for t := range fx.appendTargets {
			ts = append(ts, t)
		}
		sort.Strings(ts)
		for _, t := range ts {
			if !sortedAfter(fnBody, rs.End(), t) {
				return "appendUnsorted", detail, nil
			}
		}
		return "appendSorted", detail, ts
	case fx.mapWrite == 0 && fx.appendTo == 0:
		return "accumulate", detail, nil
	}
	return "other", detail, nil
}

// ---------------------------------------------------------------- main

func isMapIterCall(info *types.Info, e ast.Expr) bool {
	c, ok := e.(*ast.CallExpr)
	if !ok {
		return false
	}
	sel, ok := c.Fun.(*ast.SelectorExpr)
	if !ok {
		return false
	}
	if id, ok := sel.X.(*ast.Ident); ok {
		if pn, ok := info.Uses[id].(*types.PkgName); ok && pn.Imported().Path() == "maps" {
			return sel.Sel.Name == "Keys" || sel.Sel.Name == "Values" || sel.Sel.Name == "All"
		}
	}
	if sel.Sel.Name == "MapKeys" || sel.Sel.Name == "MapRange" {
		if t := info.TypeOf(sel.X); t != nil && strings.HasSuffix(t.String(), "reflect.Value") {
			return true
		}
	}
	return false
}

// isSortedKeys: slices.Sorted(maps.Keys(m))
func isSortedKeys(info *types.Info, e ast.Expr) bool {
	c, ok := e.(*ast.CallExpr)
	if !ok || len(c.Args) != 1 {
		return false
	}
	sel, ok := c.Fun.(*ast.SelectorExpr)
	if !ok || sel.Sel.Name != "Sorted" {
		return false
	}
	id, ok := sel.X.(*ast.Ident)
	if !ok {
		return false
	}
	pn, ok := info.Uses[id].(*types.PkgName)
	if !ok || pn.Imported().Path() != "slices" {
		return false
	}
	in, ok := c.Args[0].(*ast.CallExpr)
	if !ok {
		return false
	}
	isel, ok := in.Fun.(*ast.SelectorExpr)
	return ok && isel.Sel.Name == "Keys" && isMapIterCall(info, in)
}

// containsMapIter: a maps.Keys/Values/All or reflect MapKeys/MapRange call anywhere inside the ranged expression
func containsMapIter(info *types.Info, e ast.Expr) bool {
	found := false
	ast.Inspect(e, func(n ast.Node) bool {
		if c, ok := n.(*ast.CallExpr); ok && isMapIterCall(info, c) {
			found = true
		}
		return !found
	})
	return found
}

// process-state writes: calls that change state of the process outside Go variables
var osWrites = map[string]bool{"os.Chdir": true, "os.Setenv": true, "os.Unsetenv": true, "os.Clearenv": true,
	"rand.Seed": true, "syscall.Setenv": true, "syscall.Chdir": true, "os.Setuid": true, "syscall.Umask": true}

func main() {
	a := ex.ParseArgs()
	deps, err := goList(a.Repo, "-export", "-deps", ".")
	if err != nil {
		fmt.Fprintln(os.Stderr, err)
		shape = append(shape, "go list -export failed")
	}
	isRangeTarget := map[string]bool{}
	for _, t := range rangeTargets {
		isRangeTarget[t] = true
	}
	for _, p := range deps {
		if strings.HasPrefix(p.ImportPath, modPath+"/") {
			if d := strings.TrimPrefix(p.ImportPath, modPath+"/"); stateScope(d) {
				targets = append(targets, d)
			}
		}
	}
	sort.Strings(targets)
	for _, t := range rangeTargets {
		found := false
		for _, u := range targets {
			found = found || u == t
		}
		if !found {
			shape = append(shape, "package not linked into the interpreter: "+t)
		}
	}
	exports := map[string]string{}
	byPath := map[string]listPkg{}
	for _, p := range deps {
		if p.Export != "" {
			exports[p.ImportPath] = p.Export
		}
		byPath[p.ImportPath] = p
	}
	fset := token.NewFileSet()
	imp := importer.ForCompiler(fset, "gc", func(path string) (io.ReadCloser, error) {
		f, ok := exports[path]
		if !ok {
			return nil, fmt.Errorf("no export data for %s", path)
		}
		return os.Open(f)
	})

	var sites []site
	var vars []pkgVar
	var writes []write
	isTarget := map[string]string{} // import path -> dir
	for _, t := range targets {
		isTarget[modPath+"/"+t] = t
	}
	typedFiles := map[string]bool{} // abs path of files handled with type information

	for _, t := range targets {
		lp, ok := byPath[modPath+"/"+t]
		if !ok || (lp.Error != nil && len(lp.GoFiles) == 0) {
			shape = append(shape, "package not found: "+t)
			continue
		}
		var files []*ast.File
		names := append([]string{}, lp.GoFiles...)
		names = append(names, lp.CgoFiles...)
		sort.Strings(names)
		for _, n := range names {
			p := filepath.Join(lp.Dir, n)
			f, err := parser.ParseFile(fset, p, nil, 0)
			if err != nil {
				shape = append(shape, "parse error: "+t+"/"+n)
				continue
			}
			typedFiles[p] = true
			files = append(files, f)
		}
		info := &types.Info{Types: map[ast.Expr]types.TypeAndValue{}, Uses: map[*ast.Ident]types.Object{}, Defs: map[*ast.Ident]types.Object{}, Selections: map[*ast.SelectorExpr]*types.Selection{}}
		nerr := 0
		conf := types.Config{Importer: imp, Error: func(err error) {
			nerr++
			if nerr <= 3 {
				fmt.Fprintln(os.Stderr, "type error:", err)
			}
		}}
		pkg, _ := conf.Check(lp.ImportPath, fset, files, info)
		if nerr > 0 {
			shape = append(shape, fmt.Sprintf("type errors in %s: %d", t, nerr))
		}
		if pkg == nil {
			continue
		}
		collectStacks(fset, info, t, files)
		collectShared(fset, info, t, files, isTarget)
		// package-level variables
		for _, f := range files {
			fname := filepath.Base(fset.Position(f.Pos()).Filename)
			for _, d := range f.Decls {
				gd, ok := d.(*ast.GenDecl)
				if !ok || gd.Tok != token.VAR {
					continue
				}
				for _, sp := range gd.Specs {
					vs := sp.(*ast.ValueSpec)
					for _, n := range vs.Names {
						if n.Name == "_" {
							continue
						}
						ty := ""
						if o := info.Defs[n]; o != nil {
							ty = types.TypeString(o.Type(), func(p *types.Package) string { return p.Name() })
						}
						vars = append(vars, pkgVar{t, n.Name, fname, ty})
						if i := indexOfIdent(vs.Names, n); i >= 0 && len(vs.Values) == len(vs.Names) {
							varInit[t+"."+n.Name] = text(vs.Values[i])
						}
					}
				}
			}
		}
		// functions
		for _, f := range files {
			fname := t + "/" + filepath.Base(fset.Position(f.Pos()).Filename)
			for _, d := range f.Decls {
				fd, ok := d.(*ast.FuncDecl)
				if !ok || fd.Body == nil {
					// package-level var initialisers may contain func literals with ranges / writes
					if gd, ok := d.(*ast.GenDecl); ok && gd.Tok == token.VAR {
						for _, sp := range gd.Specs {
							for _, v := range sp.(*ast.ValueSpec).Values {
								if hasFuncLit(v) {
									if isRangeTarget[t] {
										sites = append(sites, rangesIn(fset, info, fname, "<var-init>", v, nil)...)
									}
									writes = append(writes, writesIn(info, fname, "<var-init>", v, isTarget)...)
								}
							}
						}
					}
					continue
				}
				fn := recvName(fd)
				if isRangeTarget[t] {
					sites = append(sites, rangesIn(fset, info, fname, fn, fd.Body, fd.Body)...)
				}
				if fd.Recv == nil && fd.Name.Name == "init" {
					continue
				}
				writes = append(writes, writesIn(info, fname, fn, fd.Body, isTarget)...)
				fnKey := ""
				if fo, ok := info.Defs[fd.Name].(*types.Func); ok {
					fnKey = fo.FullName()
					fdecls[fnKey] = fdecl{fnKey, t, fname, fn, len(fd.Body.List)}
				}
				collectUses(fset, info, fname, fn, fnKey, fd.Body, isTarget)
			}
		}
	}

	// syntactic scan of the rest of the repository for writes to target packages' variables
	varSet := map[string]bool{}
	for _, v := range vars {
		varSet[v.pkg+"."+v.name] = true
	}
	all, err := goList(a.Repo, "./...")
	if err != nil {
		shape = append(shape, "go list ./... failed")
	}
	for _, lp := range all {
		for _, n := range lp.GoFiles {
			p := filepath.Join(lp.Dir, n)
			if typedFiles[p] {
				continue
			}
			f, err := parser.ParseFile(fset, p, nil, 0)
			if err != nil {
				continue
			}
			rel, _ := filepath.Rel(a.Repo, p)
			writes = append(writes, syntacticWrites(f, rel, isTarget, varSet)...)
			syntacticRefs(fset, f, rel, isTarget)
		}
	}

	emit(a, sites, vars, writes)
	emitSorts(a, sites)
	emitResets(a)
	emitStacks(a)
	emitShared(a)
}

func indexOfIdent(ns []*ast.Ident, n *ast.Ident) int {
	for i, m := range ns {
		if m == n {
			return i
		}
	}
	return -1
}

func hasFuncLit(e ast.Expr) bool {
	found := false
	ast.Inspect(e, func(n ast.Node) bool {
		if _, ok := n.(*ast.FuncLit); ok {
			found = true
		}
		return !found
	})
	return found
}

func rangesIn(fset *token.FileSet, info *types.Info, file, fn string, root ast.Node, fnBody *ast.BlockStmt) []site {
	var res []site
	// the enclosing function body for "sorted afterwards" is the innermost func literal / decl
	var walk func(n ast.Node, body *ast.BlockStmt)
	walk = func(n ast.Node, body *ast.BlockStmt) {
		ast.Inspect(n, func(m ast.Node) bool {
			switch x := m.(type) {
			case *ast.FuncLit:
				if x.Body != nil && ast.Node(x) != n {
					walk(x.Body, x.Body)
					return false
				}
			case *ast.RangeStmt:
				if isSortedKeys(info, x.X) {
					res = append(res, site{file: file, fn: fn, expr: types.ExprString(x.X), summary: "sortedKeys", detail: "", line: fset.Position(x.Pos()).Line})
				} else if isMap(info, x.X) || isMapIterCall(info, x.X) || containsMapIter(info, x.X) {
					b := body
					if b == nil {
						b = &ast.BlockStmt{}
					}
					sum, det, targets := summarise(info, x, b)
					st := site{file: file, fn: fn, expr: types.ExprString(x.X), summary: sum, detail: det, line: fset.Position(x.Pos()).Line}
					if sum == "appendSorted" {
						st.sorts = sortFactsFor(fset, info, x, b, targets)
					}
					res = append(res, st)
				}
			}
			return true
		})
	}
	walk(root, fnBody)
	return res
}

// rootVar: the package-level variable at the root of an lvalue chain x, x.f, x[i], *x, (x)
func rootVar(info *types.Info, e ast.Expr) (*types.Var, string) {
	depth := "assign"
	for {
		switch x := e.(type) {
		case *ast.ParenExpr:
			e = x.X
		case *ast.IndexExpr:
			e = x.X
			depth = "index"
		case *ast.StarExpr:
			e = x.X
			depth = "deref"
		case *ast.SelectorExpr:
			// pkg.Name ?
			if id, ok := x.X.(*ast.Ident); ok {
				if _, ok := info.Uses[id].(*types.PkgName); ok {
					if v, ok := info.Uses[x.Sel].(*types.Var); ok && isPkgLevel(v) {
						return v, depth
					}
					return nil, ""
				}
			}
			e = x.X
			depth = "field"
		case *ast.Ident:
			if v, ok := info.Uses[x].(*types.Var); ok && isPkgLevel(v) {
				return v, depth
			}
			return nil, ""
		default:
			return nil, ""
		}
	}
}

func isPkgLevel(v *types.Var) bool {
	return v.Pkg() != nil && !v.IsField() && v.Parent() == v.Pkg().Scope()
}

func writesIn(info *types.Info, file, fn string, root ast.Node, isTarget map[string]string) []write {
	var res []write
	add := func(v *types.Var, kind string) {
		dir, ok := isTarget[v.Pkg().Path()]
		if !ok {
			if !strings.HasPrefix(v.Pkg().Path(), modPath) {
				return // standard library / third-party package state is outside the claim
			}
			dir = strings.TrimPrefix(v.Pkg().Path(), modPath+"/")
		}
		res = append(res, write{dir, v.Name(), file, fn, kind})
	}
	ast.Inspect(root, func(n ast.Node) bool {
		switch x := n.(type) {
		case *ast.AssignStmt:
			if x.Tok == token.DEFINE {
				return true
			}
			for _, l := range x.Lhs {
				if v, k := rootVar(info, l); v != nil {
					add(v, k)
				}
			}
		case *ast.IncDecStmt:
			if v, _ := rootVar(info, x.X); v != nil {
				add(v, "incdec")
			}
		case *ast.UnaryExpr:
			if x.Op == token.AND {
				if v, _ := rootVar(info, x.X); v != nil {
					add(v, "addr")
				}
			}
		case *ast.CallExpr:
			if id, ok := x.Fun.(*ast.Ident); ok && id.Name == "delete" && len(x.Args) == 2 {
				if v, _ := rootVar(info, x.Args[0]); v != nil {
					add(v, "index")
				}
			}
			if sel, ok := x.Fun.(*ast.SelectorExpr); ok {
				if id, ok := sel.X.(*ast.Ident); ok {
					if pn, ok := info.Uses[id].(*types.PkgName); ok {
						name := pn.Imported().Name() + "." + sel.Sel.Name
						if osWrites[name] {
							res = append(res, write{"process", name, file, fn, "oscall"})
						}
					}
				}
				if s, ok := info.Selections[sel]; ok && s.Kind() == types.MethodVal {
					if f, ok := s.Obj().(*types.Func); ok {
						sig := f.Type().(*types.Signature)
						if sig.Recv() != nil {
							if _, ptr := sig.Recv().Type().(*types.Pointer); ptr {
								// pointer-receiver method on a package-level *value* (mutex, sync.Map, atomic …)
								if v, _ := rootVar(info, sel.X); v != nil {
									if _, isPtr := v.Type().Underlying().(*types.Pointer); !isPtr || true {
										add(v, "method:"+f.Name())
									}
								}
							}
						}
					}
				}
			}
		}
		return true
	})
	return res
}

func syntacticWrites(f *ast.File, rel string, isTarget map[string]string, varSet map[string]bool) []write {
	alias := map[string]string{} // local name -> target dir
	for _, im := range f.Imports {
		p := strings.Trim(im.Path.Value, `"`)
		dir, ok := isTarget[p]
		if !ok {
			continue
		}
		name := filepath.Base(p)
		if im.Name != nil {
			name = im.Name.Name
		}
		alias[name] = dir
	}
	if len(alias) == 0 {
		return nil
	}
	var res []write
	root := func(e ast.Expr) (string, string, string) {
		k := "assign"
		for {
			switch x := e.(type) {
			case *ast.ParenExpr:
				e = x.X
			case *ast.IndexExpr:
				e, k = x.X, "index"
			case *ast.StarExpr:
				e, k = x.X, "deref"
			case *ast.SelectorExpr:
				if id, ok := x.X.(*ast.Ident); ok && id.Obj == nil {
					if dir, ok := alias[id.Name]; ok && varSet[dir+"."+x.Sel.Name] {
						return dir, x.Sel.Name, k
					}
				}
				e, k = x.X, "field"
			default:
				return "", "", ""
			}
		}
	}
	for _, d := range f.Decls {
		fd, ok := d.(*ast.FuncDecl)
		if !ok || fd.Body == nil {
			continue
		}
		if fd.Recv == nil && fd.Name.Name == "init" {
			continue
		}
		fn := recvName(fd)
		ast.Inspect(fd.Body, func(n ast.Node) bool {
			switch x := n.(type) {
			case *ast.AssignStmt:
				if x.Tok == token.DEFINE {
					return true
				}
				for _, l := range x.Lhs {
					if dir, name, k := root(l); name != "" {
						res = append(res, write{dir, name, rel, fn, k})
					}
				}
			case *ast.IncDecStmt:
				if dir, name, _ := root(x.X); name != "" {
					res = append(res, write{dir, name, rel, fn, "incdec"})
				}
			case *ast.UnaryExpr:
				if x.Op == token.AND {
					if dir, name, _ := root(x.X); name != "" {
						res = append(res, write{dir, name, rel, fn, "addr"})
					}
				}
			}
			return true
		})
	}
	return res
}

func emit(a ex.Args, sites []site, vars []pkgVar, writes []write) {
	// ordinals among equal (file, fn, expr), in source order
	sort.SliceStable(sites, func(i, j int) bool {
		if sites[i].file != sites[j].file {
			return sites[i].file < sites[j].file
		}
		return sites[i].line < sites[j].line
	})
	seen := map[string]int{}
	for i := range sites {
		k := sites[i].file + "\x00" + sites[i].fn + "\x00" + sites[i].expr
		sites[i].ord = seen[k]
		seen[k]++
	}
	var sb strings.Builder
	sb.WriteString("import Model.Sites\n")
	sb.WriteString("/-! Every `for … range <map>` of the anchored packages (type-checked: the ranged expression has a\nmap type), keyed by file, function, ranged expression and ordinal, with a syntactic summary of the\nloop body. Line numbers are in comments only. -/\n")
	sb.WriteString("namespace Generated.C20MapRanges\nopen Model.Sites\n\n")
	sb.WriteString("def sites : List RangeSite := [\n")
	for i, s := range sites {
		comma := ","
		if i == len(sites)-1 {
			comma = ""
		}
		fmt.Fprintf(&sb, "  ⟨%s, %s, %s, %d, .%s⟩%s  -- line %d: %s\n", ex.LeanString(s.file), ex.LeanString(s.fn), ex.LeanString(s.expr), s.ord, s.summary, comma, s.line, s.detail)
	}
	sb.WriteString("]\n\n")
	sort.Strings(shape)
	sb.WriteString("def shape : List String := [")
	for i, s := range shape {
		if i > 0 {
			sb.WriteString(", ")
		}
		sb.WriteString(ex.LeanString(s))
	}
	sb.WriteString("]\n\nend Generated.C20MapRanges\n")
	if err := ex.WriteIfChanged(a.Out, "C20MapRanges.lean", sb.String()); err != nil {
		fmt.Fprintln(os.Stderr, err)
		os.Exit(1)
	}

	// package state: group writes per variable
	type key struct{ pkg, name string }
	decl := map[key]pkgVar{}
	for _, v := range vars {
		decl[key{v.pkg, v.name}] = v
	}
	group := map[key]map[string]bool{}
	for _, w := range writes {
		k := key{w.pkg, w.name}
		if group[k] == nil {
			group[k] = map[string]bool{}
		}
		kind := w.kind
		if strings.HasPrefix(kind, "method:") {
			kind = "method"
		}
		group[k][kind+" "+w.file+" "+w.fn] = true
	}
	var keys []key
	for k := range group {
		keys = append(keys, k)
	}
	sort.Slice(keys, func(i, j int) bool {
		if keys[i].pkg != keys[j].pkg {
			return keys[i].pkg < keys[j].pkg
		}
		return keys[i].name < keys[j].name
	})
	var pb strings.Builder
	pb.WriteString("import Model.Sites\n")
	pb.WriteString("/-! Every package-level variable of the anchored packages that is written outside `init`\n(assignment, element or field write, increment or decrement, address taken, pointer-receiver method call), with the\nset of kinds of writes. Where it is written is in comments only. -/\n")
	pb.WriteString("namespace Generated.C20PkgState\nopen Model.Sites\n\n")
	pb.WriteString("def cells : List StateCell := [\n")
	for i, k := range keys {
		var ws []string
		kinds := map[string]bool{}
		for w := range group[k] {
			ws = append(ws, w)
			kinds[strings.SplitN(w, " ", 2)[0]] = true
		}
		sort.Strings(ws)
		var ks []string
		for kd := range kinds {
			ks = append(ks, "."+kd)
		}
		sort.Strings(ks)
		comma := ","
		if i == len(keys)-1 {
			comma = ""
		}
		d := decl[k]
		fmt.Fprintf(&pb, "  ⟨%s, %s, [%s]⟩%s  -- %s %s\n", ex.LeanString(k.pkg), ex.LeanString(k.name), strings.Join(ks, ", "), comma, d.file, d.typ)
		for _, w := range ws {
			fmt.Fprintf(&pb, "    --   %s\n", w)
		}
	}
	pb.WriteString("]\n\n")
	fmt.Fprintf(&pb, "/-- number of package-level variables declared in the anchored packages (written or not) -/\ndef declared : Nat := %d\n\n", len(vars))
	pb.WriteString("end Generated.C20PkgState\n")
	if err := ex.WriteIfChanged(a.Out, "C20PkgState.lean", pb.String()); err != nil {
		fmt.Fprintln(os.Stderr, err)
		os.Exit(1)
	}
	fmt.Printf("c20: %d map-range sites, %d written package variables (of %d declared), %d shape facts\n", len(sites), len(keys), len(vars), len(shape))
}
