// resets.go: the facts behind "a reset that is executed on every run".
//
// lean/Generated/C20Resets.lean lists, for every package-level variable that some function sets
// to a value that does not depend on the state of the process (`x = <constant, nil, function,
// literal>`, `x.Store(<constant>)`, `clear(x)`), every place that touches it:
//
//	reads        the value is used (also: a function stored in the variable is called)
//	writes       a value computed at run time is stored
//	resets       the variable's initial value is stored (its initialiser, or the zero value)
//	sets         some other constant-like value is stored
//	readsWrites  both (x++, x += e, &x, a pointer-receiver method of unknown effect)
//
// either directly (`via = ""`) or by calling an *accessor* — a function of the variable's own
// package with at most two statements that touches it (`data.HasUserOutput`, `data.ResetUserOutput`
// …). Each place carries the conditions under which it is executed inside its function:
//
//	conds   the enclosing constructs from the function body down to the place, outermost first
//	        ("if <cond>", "else of if <cond>", "for <cond>", "range <x>", "switch <tag> case <list>",
//	        "select", "func literal", "defer", "go", "right of && after <lhs>")
//	guards  the earlier statements — in the statement list of the place and in every enclosing list — that
//	        can leave the function (contain a return, panic, os.Exit, runtime.Goexit, log.Fatal…, goto), by
//	        their header text
//
// and `entry` lists, for the functions that make up the start of a run of the command-line
// interpreter (zy.go init, cmd.getRuntimeVM, cmd.RunScriptFile, runtime.NewVM, VM.LoadAndRun,
// VM.RunShutdownCallbacks, runtime.runHeaderCallbacks), every call in source order with its conds and guards.
// Nothing is keyed by line numbers.
package main

import (
	"fmt"
	"go/ast"
	"go/parser"
	"go/token"
	"go/types"
	"os"
	"path/filepath"
	"sort"
	"strings"

	"verif/extract/ex"
)

type touch struct {
	pkg, name  string // the cell: declaring package dir, variable
	file, fn   string // the function that touches it
	fnKey      string // types.Func.FullName of that function ("" when not a declared function)
	kind       string // reads | writes | resets | sets | readsWrites
	val        string // constant stores: text of the stored value
	via        string // "" = touches the variable itself; otherwise the accessor it calls
	conds      []string
	guards     []string
	line       int
	accessorOf bool // filled later: fn itself is an accessor of the cell
}

type fref struct {
	callee   string // FullName of the referenced function
	file, fn string
	call     bool // in call position (otherwise: taken as a value)
	conds    []string
	guards   []string
	line     int
}

type fdecl struct {
	key, pkg, file, fn string
	nstmts             int
}

var (
	shapeResets []string
	touches     []touch
	frefs       []fref
	fdecls      = map[string]fdecl{}
)

// ---------------------------------------------------------------- condition-tracking walk

// guards: the earlier statements — of the statement list the place is in and of every enclosing list, up
// to the function body — that can leave the function (or the function literal they are in)
type cwalk struct {
	visit  func(n ast.Node, conds, guards []string)
	guards []string
}

func push(conds []string, c string) []string {
	r := make([]string, len(conds)+1)
	copy(r, conds)
	r[len(conds)] = c
	return r
}

func text(e ast.Expr) string {
	if e == nil {
		return ""
	}
	s := types.ExprString(e)
	if len(s) > 120 {
		s = s[:120] + "…"
	}
	return s
}

func (w *cwalk) stmts(list []ast.Stmt, conds []string) {
	saved := w.guards
	for _, s := range list {
		w.stmt(s, conds)
		if canLeave(s) {
			w.guards = push(w.guards, stmtHeader(s))
		}
	}
	w.guards = saved
}

func (w *cwalk) expr(e ast.Node, conds []string) {
	if e == nil {
		return
	}
	ast.Inspect(e, func(n ast.Node) bool {
		switch x := n.(type) {
		case nil:
			return false
		case *ast.FuncLit:
			w.visit(x, conds, w.guards)
			w.stmts(x.Body.List, push(conds, "func literal"))
			return false
		case *ast.BinaryExpr:
			if x.Op == token.LAND || x.Op == token.LOR {
				w.visit(x, conds, w.guards)
				w.expr(x.X, conds)
				w.expr(x.Y, push(conds, "right of "+x.Op.String()+" after "+text(x.X)))
				return false
			}
		}
		w.visit(n, conds, w.guards)
		return true
	})
}

func caseText(list []ast.Expr) string {
	if list == nil {
		return "default"
	}
	var ts []string
	for _, e := range list {
		ts = append(ts, text(e))
	}
	return strings.Join(ts, ", ")
}

func (w *cwalk) stmt(s ast.Stmt, conds []string) {
	switch st := s.(type) {
	case nil:
	case *ast.BlockStmt:
		w.stmts(st.List, conds)
	case *ast.IfStmt:
		w.stmt(st.Init, conds)
		w.expr(st.Cond, conds)
		c := text(st.Cond)
		w.stmts(st.Body.List, push(conds, "if "+c))
		if st.Else != nil {
			w.stmt(st.Else, push(conds, "else of if "+c))
		}
	case *ast.ForStmt:
		w.stmt(st.Init, conds)
		in := push(conds, "for "+text(st.Cond))
		if st.Cond != nil {
			w.expr(st.Cond, conds)
		}
		w.stmt(st.Post, in)
		w.stmts(st.Body.List, in)
	case *ast.RangeStmt:
		w.expr(st.X, conds)
		w.stmts(st.Body.List, push(conds, "range "+text(st.X)))
	case *ast.SwitchStmt:
		w.stmt(st.Init, conds)
		if st.Tag != nil {
			w.expr(st.Tag, conds)
		}
		for _, c := range st.Body.List {
			cc := c.(*ast.CaseClause)
			in := push(conds, "switch "+text(st.Tag)+" case "+caseText(cc.List))
			for _, e := range cc.List {
				w.expr(e, in)
			}
			w.stmts(cc.Body, in)
		}
	case *ast.TypeSwitchStmt:
		w.stmt(st.Init, conds)
		w.stmt(st.Assign, conds)
		for _, c := range st.Body.List {
			cc := c.(*ast.CaseClause)
			w.stmts(cc.Body, push(conds, "type switch case "+caseText(cc.List)))
		}
	case *ast.SelectStmt:
		for _, c := range st.Body.List {
			cc := c.(*ast.CommClause)
			in := push(conds, "select")
			w.stmt(cc.Comm, in)
			w.stmts(cc.Body, in)
		}
	case *ast.LabeledStmt:
		w.stmt(st.Stmt, conds)
	case *ast.DeferStmt:
		w.expr(st.Call, push(conds, "defer"))
	case *ast.GoStmt:
		w.expr(st.Call, push(conds, "go"))
	case *ast.AssignStmt:
		w.visit(st, conds, w.guards)
		for _, r := range st.Rhs {
			w.expr(r, conds)
		}
		for _, l := range st.Lhs {
			w.expr(l, conds)
		}
	case *ast.IncDecStmt:
		w.visit(st, conds, w.guards)
		w.expr(st.X, conds)
	case *ast.ExprStmt:
		w.expr(st.X, conds)
	case *ast.ReturnStmt:
		for _, r := range st.Results {
			w.expr(r, conds)
		}
	case *ast.SendStmt:
		w.expr(st.Chan, conds)
		w.expr(st.Value, conds)
	case *ast.DeclStmt:
		if gd, ok := st.Decl.(*ast.GenDecl); ok {
			for _, sp := range gd.Specs {
				if vs, ok := sp.(*ast.ValueSpec); ok {
					for _, v := range vs.Values {
						w.expr(v, conds)
					}
				}
			}
		}
	}
}

var exitCalls = map[string]bool{"panic": true, "os.Exit": true, "runtime.Goexit": true, "goruntime.Goexit": true,
	"log.Fatal": true, "log.Fatalf": true, "log.Fatalln": true, "log.Panic": true, "log.Panicf": true}

// canLeave: the statement contains a way out of the enclosing function (not inside a func literal)
func canLeave(s ast.Stmt) bool {
	found := false
	ast.Inspect(s, func(n ast.Node) bool {
		switch x := n.(type) {
		case *ast.FuncLit:
			return false
		case *ast.ReturnStmt:
			found = true
		case *ast.BranchStmt:
			if x.Tok == token.GOTO {
				found = true
			}
		case *ast.CallExpr:
			if exitCalls[callName(x)] {
				found = true
			}
		}
		return !found
	})
	return found
}

func stmtHeader(s ast.Stmt) string {
	switch st := s.(type) {
	case *ast.IfStmt:
		return "if " + text(st.Cond)
	case *ast.ForStmt:
		return "for " + text(st.Cond)
	case *ast.RangeStmt:
		return "range " + text(st.X)
	case *ast.SwitchStmt:
		return "switch " + text(st.Tag)
	case *ast.TypeSwitchStmt:
		return "type switch"
	case *ast.SelectStmt:
		return "select"
	case *ast.ReturnStmt:
		return "return"
	case *ast.ExprStmt:
		return text(st.X)
	case *ast.LabeledStmt:
		return stmtHeader(st.Stmt)
	case *ast.BlockStmt:
		return "block"
	}
	return fmt.Sprintf("%T", s)
}

// walkBody walks a function body; visit gets, for every node, its conds and guards.
func walkBody(body *ast.BlockStmt, visit func(n ast.Node, conds, guards []string)) {
	w := &cwalk{visit: visit}
	w.stmts(body.List, nil)
}

// ---------------------------------------------------------------- typed collection

// rootVarIdent: like rootVar, also returning the identifier that names the variable
func rootVarIdent(info *types.Info, e ast.Expr) (*types.Var, string, *ast.Ident) {
	depth := "assign"
	for {
		switch x := e.(type) {
		case *ast.ParenExpr:
			e = x.X
		case *ast.IndexExpr:
			e = x.X
			depth = "index"
		case *ast.StarExpr:
			e = x.X
			depth = "deref"
		case *ast.SelectorExpr:
			if id, ok := x.X.(*ast.Ident); ok {
				if _, ok := info.Uses[id].(*types.PkgName); ok {
					if v, ok := info.Uses[x.Sel].(*types.Var); ok && isPkgLevel(v) {
						return v, depth, x.Sel
					}
					return nil, "", nil
				}
			}
			e = x.X
			depth = "field"
		case *ast.Ident:
			if v, ok := info.Uses[x].(*types.Var); ok && isPkgLevel(v) {
				return v, depth, x
			}
			return nil, "", nil
		default:
			return nil, "", nil
		}
	}
}

// constLike: a value that does not depend on the state of the process: literals, nil/true/false,
// constants, functions (declared or literal), composite literals / make / new of such, conversions
func constLike(info *types.Info, e ast.Expr) bool {
	switch x := e.(type) {
	case *ast.BasicLit:
		return true
	case *ast.FuncLit:
		// a function literal is a constant only if it captures nothing of the enclosing function
		captures := false
		ast.Inspect(x.Body, func(n ast.Node) bool {
			if id, ok := n.(*ast.Ident); ok {
				if v, ok := info.Uses[id].(*types.Var); ok && !v.IsField() && !isPkgLevel(v) && (v.Pos() < x.Pos() || v.Pos() > x.End()) {
					captures = true
				}
			}
			return !captures
		})
		return !captures
	case *ast.ParenExpr:
		return constLike(info, x.X)
	case *ast.UnaryExpr:
		return constLike(info, x.X)
	case *ast.Ident:
		switch info.Uses[x].(type) {
		case *types.Nil, *types.Const, *types.Func:
			return true
		}
		return x.Name == "nil" || x.Name == "true" || x.Name == "false"
	case *ast.SelectorExpr:
		switch info.Uses[x.Sel].(type) {
		case *types.Const, *types.Func:
			return true
		}
		return false
	case *ast.CompositeLit:
		for _, el := range x.Elts {
			if kv, ok := el.(*ast.KeyValueExpr); ok {
				el = kv.Value
			}
			if !constLike(info, el) {
				return false
			}
		}
		return true
	case *ast.CallExpr:
		if id, ok := x.Fun.(*ast.Ident); ok && (id.Name == "make" || id.Name == "new") {
			return true
		}
		if tv, ok := info.Types[x.Fun]; ok && tv.IsType() && len(x.Args) == 1 {
			return constLike(info, x.Args[0])
		}
	}
	return false
}

var readMethods = map[string]bool{"Load": true, "Range": true, "Len": true, "RLock": true, "RUnlock": true}
var lockMethods = map[string]bool{"Lock": true, "Unlock": true, "TryLock": true, "Do": true}

func cellOf(v *types.Var, isTarget map[string]string) (string, string, bool) {
	dir, ok := isTarget[v.Pkg().Path()]
	if !ok {
		if !strings.HasPrefix(v.Pkg().Path(), modPath) {
			return "", "", false
		}
		dir = strings.TrimPrefix(v.Pkg().Path(), modPath+"/")
	}
	return dir, v.Name(), true
}

// collectUses records every touch of a package-level variable and every reference to a declared
// function inside one function body.
func collectUses(fset *token.FileSet, info *types.Info, file, fn, fnKey string, body *ast.BlockStmt, isTarget map[string]string) {
	skip := map[token.Pos]bool{}
	callPos := map[token.Pos]bool{}
	val := ""
	add := func(v *types.Var, kind string, conds, guards []string, pos token.Pos) {
		pkg, name, ok := cellOf(v, isTarget)
		if !ok {
			return
		}
		touches = append(touches, touch{pkg: pkg, name: name, file: file, fn: fn, fnKey: fnKey, kind: kind, val: val, conds: conds, guards: guards, line: fset.Position(pos).Line})
		val = ""
	}
	walkBody(body, func(n ast.Node, conds, guards []string) {
		switch x := n.(type) {
		case *ast.AssignStmt:
			if x.Tok == token.DEFINE {
				return
			}
			for i, l := range x.Lhs {
				v, depth, id := rootVarIdent(info, l)
				if v == nil {
					continue
				}
				skip[id.Pos()] = true
				kind := "writes"
				switch {
				case x.Tok != token.ASSIGN:
					kind = "readsWrites"
				case depth == "assign" && len(x.Rhs) == len(x.Lhs) && constLike(info, x.Rhs[i]):
					kind = "resets"
					val = text(x.Rhs[i])
				}
				add(v, kind, conds, guards, l.Pos())
			}
		case *ast.IncDecStmt:
			if v, _, id := rootVarIdent(info, x.X); v != nil {
				skip[id.Pos()] = true
				add(v, "readsWrites", conds, guards, x.Pos())
			}
		case *ast.UnaryExpr:
			if x.Op == token.AND {
				if v, _, id := rootVarIdent(info, x.X); v != nil {
					skip[id.Pos()] = true
					add(v, "readsWrites", conds, guards, x.Pos())
				}
			}
		case *ast.CallExpr:
			switch f := x.Fun.(type) {
			case *ast.Ident:
				callPos[f.Pos()] = true
				if (f.Name == "delete" || f.Name == "clear") && len(x.Args) >= 1 {
					if _, isBuiltin := info.Uses[f].(*types.Builtin); isBuiltin {
						if v, depth, id := rootVarIdent(info, x.Args[0]); v != nil {
							skip[id.Pos()] = true
							kind := "writes"
							if f.Name == "clear" && depth == "assign" {
								kind = "resets"
								val = "<zero>"
							}
							add(v, kind, conds, guards, x.Pos())
						}
					}
				}
			case *ast.SelectorExpr:
				callPos[f.Sel.Pos()] = true
				if s, ok := info.Selections[f]; ok && s.Kind() == types.MethodVal {
					if v, depth, id := rootVarIdent(info, f.X); v != nil && depth == "assign" {
						skip[id.Pos()] = true
						m := f.Sel.Name
						kind := "readsWrites"
						switch {
						case readMethods[m]:
							kind = "reads"
						case lockMethods[m]:
							kind = "locks"
						case m == "Store" && len(x.Args) == 1:
							kind = "writes"
							if constLike(info, x.Args[0]) {
								kind = "resets"
								val = text(x.Args[0])
							}
						}
						if kind != "locks" {
							add(v, kind, conds, guards, x.Pos())
						}
					}
				}
			}
		case *ast.Ident:
			switch o := info.Uses[x].(type) {
			case *types.Var:
				if isPkgLevel(o) && !skip[x.Pos()] {
					add(o, "reads", conds, guards, x.Pos())
				}
			case *types.Func:
				if o.Pkg() != nil && strings.HasPrefix(o.Pkg().Path(), modPath) {
					frefs = append(frefs, fref{callee: o.FullName(), file: file, fn: fn, call: callPos[x.Pos()], conds: conds, guards: guards, line: fset.Position(x.Pos()).Line})
				}
			}
		}
	})
}

// syntacticRefs: calls `alias.F(…)` of package-level functions of the typed packages from files that
// are not type-checked (cmd/…, the main package)
func syntacticRefs(fset *token.FileSet, f *ast.File, rel string, isTarget map[string]string) {
	alias := map[string]string{}
	for _, im := range f.Imports {
		p := strings.Trim(im.Path.Value, `"`)
		if _, ok := isTarget[p]; !ok {
			continue
		}
		name := filepath.Base(p)
		if im.Name != nil {
			name = im.Name.Name
		}
		alias[name] = p
	}
	if len(alias) == 0 {
		return
	}
	for _, d := range f.Decls {
		fd, ok := d.(*ast.FuncDecl)
		if !ok || fd.Body == nil {
			continue
		}
		fn := recvName(fd)
		callPos := map[token.Pos]bool{}
		walkBody(fd.Body, func(n ast.Node, conds, guards []string) {
			switch x := n.(type) {
			case *ast.CallExpr:
				if sel, ok := x.Fun.(*ast.SelectorExpr); ok {
					callPos[sel.Pos()] = true
				}
			case *ast.SelectorExpr:
				id, ok := x.X.(*ast.Ident)
				if !ok || id.Obj != nil {
					return
				}
				if p, ok := alias[id.Name]; ok {
					frefs = append(frefs, fref{callee: p + "." + x.Sel.Name, file: rel, fn: fn, call: callPos[x.Pos()], conds: conds, guards: guards, line: fset.Position(x.Pos()).Line})
				}
			}
		})
	}
}

// ---------------------------------------------------------------- entry path skeleton

type entryFn struct{ file, recv, name string }

// the functions a run of `origami script.php` goes through before and after the script's own code
var entryFns = []entryFn{
	{"zy.go", "", "init"},
	{"cmd/runtime.go", "", "getRuntimeVM"},
	{"cmd/root.go", "", "RunScriptFile"},
	{"runtime/vm.go", "", "NewVM"},
	{"runtime/vm.go", "VM", "LoadAndRun"},
	{"runtime/shutdown.go", "VM", "RunShutdownCallbacks"},
	{"runtime/shutdown_hooks.go", "", "runHeaderCallbacks"},
}

var builtinCalls = map[string]bool{"make": true, "len": true, "cap": true, "append": true, "new": true, "copy": true, "delete": true, "string": true, "int": true}

type entryStep struct {
	file, fn, callee string
	conds, guards    []string
}

func entrySkeleton(repo string) []entryStep {
	var res []entryStep
	for _, ef := range entryFns {
		fset := token.NewFileSet()
		f, err := parser.ParseFile(fset, filepath.Join(repo, ef.file), nil, 0)
		if err != nil {
			shapeResets = append(shapeResets, "entry path: cannot parse "+ef.file)
			continue
		}
		fd := ex.FuncDecl(f, ef.recv, ef.name)
		if fd == nil || fd.Body == nil {
			shapeResets = append(shapeResets, "entry path: function not found: "+ef.file+" "+ef.recv+"."+ef.name)
			continue
		}
		fn := recvName(fd)
		walkBody(fd.Body, func(n ast.Node, conds, guards []string) {
			c, ok := n.(*ast.CallExpr)
			if !ok {
				return
			}
			name := callName(c)
			if builtinCalls[name] {
				return
			}
			res = append(res, entryStep{ef.file, fn, name, conds, guards})
		})
	}
	return res
}

// ---------------------------------------------------------------- emission

// varInit: text of the initialiser of each package-level variable ("" = none: zero value)
var varInit = map[string]string{}

func unqualified(s string) string {
	if i := strings.LastIndex(s, "."); i >= 0 && !strings.ContainsAny(s, "(){}[] ") {
		return s[i+1:]
	}
	return s
}

func isInitial(init, val string) bool {
	if val == "<zero>" {
		return init == ""
	}
	if init == "" {
		switch val {
		case "false", "nil", "0", `""`:
			return true
		}
		return false
	}
	return unqualified(init) == unqualified(val)
}

func leanList(xs []string) string {
	var q []string
	for _, x := range xs {
		q = append(q, ex.LeanString(x))
	}
	return "[" + strings.Join(q, ", ") + "]"
}

func emitResets(a ex.Args) {
	// a constant store is a *reset* when it stores the variable's initial value (its initialiser, or the zero
	// value when there is none), otherwise it *sets* some other constant
	for i := range touches {
		t := &touches[i]
		if t.kind == "resets" && !isInitial(varInit[t.pkg+"."+t.name], t.val) {
			t.kind = "sets"
		}
	}
	// accessors: functions of the cell's own package, at most two statements, touching the cell directly
	type ckey struct{ pkg, name string }
	accessors := map[string][]touch{} // FullName -> its direct touches
	for i := range touches {
		t := &touches[i]
		d, ok := fdecls[t.fnKey]
		if !ok || t.fnKey == "" {
			continue
		}
		if d.pkg == t.pkg && d.nstmts <= 2 {
			t.accessorOf = true
			accessors[t.fnKey] = append(accessors[t.fnKey], *t)
		}
	}
	all := append([]touch(nil), touches...)
	for _, r := range frefs {
		ts, ok := accessors[r.callee]
		if !ok {
			continue
		}
		seen := map[string]bool{}
		for _, t := range ts {
			k := t.pkg + "." + t.name + " " + t.kind
			if seen[k] {
				continue
			}
			seen[k] = true
			conds := r.conds
			if !r.call {
				conds = push(conds, "taken as a value")
			}
			all = append(all, touch{pkg: t.pkg, name: t.name, file: r.file, fn: r.fn, kind: t.kind, via: fdecls[r.callee].fn, conds: conds, guards: r.guards, line: r.line})
		}
	}
	// only the cells that somebody resets
	hasReset := map[ckey]bool{}
	for _, t := range all {
		if t.kind == "resets" || t.kind == "sets" {
			hasReset[ckey{t.pkg, t.name}] = true
		}
	}
	var out []touch
	for _, t := range all {
		if hasReset[ckey{t.pkg, t.name}] {
			out = append(out, t)
		}
	}
	sort.SliceStable(out, func(i, j int) bool {
		x, y := out[i], out[j]
		if x.pkg != y.pkg {
			return x.pkg < y.pkg
		}
		if x.name != y.name {
			return x.name < y.name
		}
		if x.file != y.file {
			return x.file < y.file
		}
		if x.line != y.line {
			return x.line < y.line
		}
		return x.kind < y.kind
	})
	var sb strings.Builder
	sb.WriteString("import Model.Sites\n")
	sb.WriteString("/-! For every package-level variable that some function resets (stores a value that does not depend\non the state of the process): every place that touches it — directly or through an accessor of its own\npackage — with the conditions under which that place is executed inside its function; and the calls\nof the functions on the entry path of a run of the command-line interpreter. Line numbers are in\ncomments only. -/\n")
	sb.WriteString("namespace Generated.C20Resets\nopen Model.Sites\n\n")
	sb.WriteString("def uses : List CellUse := [\n")
	for i, t := range out {
		comma := ","
		if i == len(out)-1 {
			comma = ""
		}
		acc := "false"
		if t.accessorOf {
			acc = "true"
		}
		fmt.Fprintf(&sb, "  ⟨%s, %s, %s, %s, .%s, %s, %s, %s, %s⟩%s  -- line %d\n", ex.LeanString(t.pkg), ex.LeanString(t.name), ex.LeanString(t.file), ex.LeanString(t.fn),
			t.kind, ex.LeanString(t.via), acc, leanList(t.conds), leanList(t.guards), comma, t.line)
	}
	sb.WriteString("]\n\n")
	steps := entrySkeleton(a.Repo)
	sb.WriteString("def entry : List EntryStep := [\n")
	for i, s := range steps {
		comma := ","
		if i == len(steps)-1 {
			comma = ""
		}
		fmt.Fprintf(&sb, "  ⟨%s, %s, %s, %s, %s⟩%s\n", ex.LeanString(s.file), ex.LeanString(s.fn), ex.LeanString(s.callee), leanList(s.conds), leanList(s.guards), comma)
	}
	sb.WriteString("]\n\n")
	sort.Strings(shapeResets)
	sb.WriteString("def shape : List String := " + leanList(shapeResets) + "\n\nend Generated.C20Resets\n")
	if err := ex.WriteIfChanged(a.Out, "C20Resets.lean", sb.String()); err != nil {
		fmt.Fprintln(os.Stderr, err)
		os.Exit(1)
	}
	fmt.Printf("c20: %d uses of %d resettable package variables, %d entry-path calls\n", len(out), len(hasReset), len(steps))
}
