// Round 7: process-wide slices with a floor (sentinel) — Generated/C20Stacks.lean.
//
// A *container* is a slice that is process-wide state: a slice-typed field of a struct type declared in
// a linked package of which a package-level variable exists (core.obStack → outputBufferStack.buffers), or
// a package-level variable of slice type. Its *floor* is the number of elements the variable's initialiser
// stores (the sentinel of obStack: 1). For every function of the declaring package the translator lists
// each effect on the container's length with the length guards in force where the effect stands:
//
//	push k    c = append(c, x1 … xk)            (append(c, xs...) : push 0)
//	pop s     c = c[:len(c)-s]   c = c[s:]
//	reset r   c = T{e1 … er}   c = nil   c = make(T, r)   c = c[:0]
//	unknown   any other assignment to c (or c = c[:e] with an e the translator cannot read)
//	none      the function has a length guard on c but no effect (a reader)
//
// guards: `if len(c) OP k { … return }` at the top level of an enclosing block, before the effect
// (returns = true; of `a || b` each comparison with a constant counts, of `a && b` none), and the
// conditions of enclosing `if` / `for` statements (returns = false; of `a && b` each comparison counts, of
// `a || b` none). Guards that are not comparisons of len(c) with an integer literal are ignored, which can
// only make an effect look less guarded than it is.
//
// The container is identified through go/types (the static type of the operand of the field selection),
// so that `s := obStack; s.buffers = …` is attributed to outputBufferStack.buffers.
package main

import (
	"fmt"
	"go/ast"
	"go/token"
	"go/types"
	"os"
	"sort"
	"strconv"
	"strings"

	"verif/extract/ex"
)

type lenGuard struct {
	cont    string
	cmp     string
	k       int
	returns bool
}

type effectFact struct {
	cont   string
	file   string
	fn     string
	guards []lenGuard
	eff    string // Lean term
	line   int
}

type containerInfo struct {
	pkg, ty, field string
	vars           []string
	floor          int
	hasVar         bool
}

var stackEffects []effectFact
var stackContainers = map[string]*containerInfo{}
var stackShape []string

// containerOf: the key of the container an expression denotes ("" = none)
func containerOf(info *types.Info, dir string, e ast.Expr) string {
	switch x := e.(type) {
	case *ast.ParenExpr:
		return containerOf(info, dir, x.X)
	case *ast.SelectorExpr:
		sel := info.Selections[x]
		if sel == nil || sel.Kind() != types.FieldVal {
			// pkg.Var
			if v, ok := info.Uses[x.Sel].(*types.Var); ok && isPkgLevel(v) && v.Pkg() != nil && strings.HasPrefix(v.Pkg().Path(), modPath+"/") {
				if _, ok := v.Type().Underlying().(*types.Slice); ok {
					return strings.TrimPrefix(v.Pkg().Path(), modPath+"/") + "||" + v.Name()
				}
			}
			return ""
		}
		if _, ok := sel.Obj().Type().Underlying().(*types.Slice); !ok {
			return ""
		}
		rt := sel.Recv()
		if p, ok := rt.(*types.Pointer); ok {
			rt = p.Elem()
		}
		n, ok := rt.(*types.Named)
		if !ok || n.Obj().Pkg() == nil || !strings.HasPrefix(n.Obj().Pkg().Path(), modPath+"/") {
			return ""
		}
		if len(sel.Index()) != 1 { // promoted through an embedded struct: not handled
			return ""
		}
		return strings.TrimPrefix(n.Obj().Pkg().Path(), modPath+"/") + "|" + n.Obj().Name() + "|" + sel.Obj().Name()
	case *ast.Ident:
		if v, ok := info.Uses[x].(*types.Var); ok && isPkgLevel(v) && v.Pkg() != nil && strings.HasPrefix(v.Pkg().Path(), modPath+"/") {
			if _, ok := v.Type().Underlying().(*types.Slice); ok {
				return strings.TrimPrefix(v.Pkg().Path(), modPath+"/") + "||" + v.Name()
			}
		}
	}
	return ""
}

func lenOf(info *types.Info, dir string, e ast.Expr) string {
	for {
		p, ok := e.(*ast.ParenExpr)
		if !ok {
			break
		}
		e = p.X
	}
	c, ok := e.(*ast.CallExpr)
	if !ok || len(c.Args) != 1 {
		return ""
	}
	if id, ok := c.Fun.(*ast.Ident); !ok || id.Name != "len" {
		return ""
	}
	return containerOf(info, dir, c.Args[0])
}

func intLit(e ast.Expr) (int, bool) {
	for {
		p, ok := e.(*ast.ParenExpr)
		if !ok {
			break
		}
		e = p.X
	}
	if b, ok := e.(*ast.BasicLit); ok && b.Kind == token.INT {
		if n, err := strconv.Atoi(b.Value); err == nil {
			return n, true
		}
	}
	return 0, false
}

var cmpNames = map[token.Token]string{token.LEQ: "le", token.LSS: "lt", token.EQL: "eq", token.NEQ: "ne", token.GEQ: "ge", token.GTR: "gt"}
var cmpFlip = map[token.Token]token.Token{token.LEQ: token.GEQ, token.LSS: token.GTR, token.EQL: token.EQL, token.NEQ: token.NEQ, token.GEQ: token.LEQ, token.GTR: token.LSS}

// lenCmps: the comparisons of len(container) with an integer literal inside cond, combined by `joiner`
// only (|| for a returning guard, && for an enclosing condition); ok=false when cond has another shape at
// the top (then nothing may be concluded from it)
func lenCmps(info *types.Info, dir string, cond ast.Expr, joiner token.Token, returns bool) []lenGuard {
	for {
		p, ok := cond.(*ast.ParenExpr)
		if !ok {
			break
		}
		cond = p.X
	}
	b, ok := cond.(*ast.BinaryExpr)
	if !ok {
		return nil
	}
	if b.Op == joiner {
		return append(lenCmps(info, dir, b.X, joiner, returns), lenCmps(info, dir, b.Y, joiner, returns)...)
	}
	name, ok := cmpNames[b.Op]
	if !ok {
		return nil
	}
	if c := lenOf(info, dir, b.X); c != "" {
		if k, ok := intLit(b.Y); ok {
			return []lenGuard{{c, name, k, returns}}
		}
	}
	if c := lenOf(info, dir, b.Y); c != "" {
		if k, ok := intLit(b.X); ok {
			return []lenGuard{{c, cmpNames[cmpFlip[b.Op]], k, returns}}
		}
	}
	return nil
}

func terminates(b *ast.BlockStmt) bool {
	if b == nil || len(b.List) == 0 {
		return false
	}
	switch s := b.List[len(b.List)-1].(type) {
	case *ast.ReturnStmt:
		return true
	case *ast.ExprStmt:
		if c, ok := s.X.(*ast.CallExpr); ok {
			if id, ok := c.Fun.(*ast.Ident); ok && id.Name == "panic" {
				return true
			}
		}
	case *ast.BranchStmt:
		return false
	}
	return false
}

type stackWalker struct {
	info  *types.Info
	fset  *token.FileSet
	dir   string
	file  string
	fn    string
	found map[string]bool // containers with an effect in this function
	seen  map[string][]lenGuard
}

func (w *stackWalker) guardsFor(gs []lenGuard, cont string) []lenGuard {
	var r []lenGuard
	for _, g := range gs {
		if g.cont == cont {
			r = append(r, g)
		}
	}
	return r
}

func (w *stackWalker) effect(cont, eff string, gs []lenGuard, pos token.Pos) {
	w.found[cont] = true
	stackEffects = append(stackEffects, effectFact{cont, w.file, w.fn, w.guardsFor(gs, cont), eff, w.fset.Position(pos).Line})
}

func (w *stackWalker) assign(lhs, rhs ast.Expr, gs []lenGuard, pos token.Pos) {
	cont := containerOf(w.info, w.dir, lhs)
	if cont == "" {
		return
	}
	for {
		p, ok := rhs.(*ast.ParenExpr)
		if !ok {
			break
		}
		rhs = p.X
	}
	switch r := rhs.(type) {
	case *ast.SliceExpr:
		if containerOf(w.info, w.dir, r.X) == cont {
			switch {
			case r.High != nil && r.Low == nil:
				if k, ok := intLit(r.High); ok {
					w.effect(cont, fmt.Sprintf(".reset %d", k), gs, pos) // c[:k]: at most k elements stay
					return
				}
				if b, ok := r.High.(*ast.BinaryExpr); ok && b.Op == token.SUB && lenOf(w.info, w.dir, b.X) == cont {
					if k, ok := intLit(b.Y); ok {
						w.effect(cont, fmt.Sprintf(".pop %d", k), gs, pos)
						return
					}
				}
			case r.High == nil && r.Low != nil:
				if k, ok := intLit(r.Low); ok {
					w.effect(cont, fmt.Sprintf(".pop %d", k), gs, pos)
					return
				}
			}
		}
		w.effect(cont, ".unknown", gs, pos)
	case *ast.CompositeLit:
		w.effect(cont, fmt.Sprintf(".reset %d", len(r.Elts)), gs, pos)
	case *ast.Ident:
		if r.Name == "nil" {
			w.effect(cont, ".reset 0", gs, pos)
		} else {
			w.effect(cont, ".unknown", gs, pos)
		}
	case *ast.CallExpr:
		if id, ok := r.Fun.(*ast.Ident); ok {
			switch {
			case id.Name == "append" && len(r.Args) >= 1 && containerOf(w.info, w.dir, r.Args[0]) == cont:
				if r.Ellipsis != token.NoPos {
					w.effect(cont, ".push 0", gs, pos)
				} else {
					w.effect(cont, fmt.Sprintf(".push %d", len(r.Args)-1), gs, pos)
				}
				return
			case id.Name == "make" && len(r.Args) >= 2:
				if k, ok := intLit(r.Args[1]); ok {
					w.effect(cont, fmt.Sprintf(".reset %d", k), gs, pos)
					return
				}
			}
		}
		w.effect(cont, ".unknown", gs, pos)
	default:
		w.effect(cont, ".unknown", gs, pos)
	}
}

func (w *stackWalker) note(gs []lenGuard) {
	for _, g := range gs {
		w.seen[g.cont] = append(w.seen[g.cont], g)
	}
}

func (w *stackWalker) block(list []ast.Stmt, gs []lenGuard) {
	gs = append([]lenGuard{}, gs...)
	for _, s := range list {
		w.stmt(s, &gs)
	}
}

func (w *stackWalker) stmt(s ast.Stmt, gs *[]lenGuard) {
	switch x := s.(type) {
	case *ast.AssignStmt:
		if len(x.Lhs) == len(x.Rhs) {
			for i := range x.Lhs {
				w.assign(x.Lhs[i], x.Rhs[i], *gs, x.Pos())
			}
		} else {
			for _, l := range x.Lhs {
				if c := containerOf(w.info, w.dir, l); c != "" {
					w.effect(c, ".unknown", *gs, x.Pos())
				}
			}
		}
		for _, r := range x.Rhs {
			w.funcLits(r, *gs)
		}
	case *ast.IfStmt:
		if x.Init != nil {
			w.stmt(x.Init, gs)
		}
		pos := lenCmps(w.info, w.dir, x.Cond, token.LAND, false)
		if !(x.Else == nil && terminates(x.Body)) {
			w.note(pos)
		}
		w.block(x.Body.List, append(append([]lenGuard{}, *gs...), pos...))
		if x.Else != nil {
			switch e := x.Else.(type) {
			case *ast.BlockStmt:
				w.block(e.List, *gs)
			case *ast.IfStmt:
				w.stmt(e, gs)
			}
		} else if terminates(x.Body) {
			ret := lenCmps(w.info, w.dir, x.Cond, token.LOR, true)
			w.note(ret)
			*gs = append(*gs, ret...)
		}
	case *ast.ForStmt:
		var pos []lenGuard
		if x.Cond != nil {
			pos = lenCmps(w.info, w.dir, x.Cond, token.LAND, false)
			w.note(pos)
		}
		if x.Post != nil {
			w.stmt(x.Post, gs)
		}
		w.block(x.Body.List, append(append([]lenGuard{}, *gs...), pos...))
	case *ast.RangeStmt:
		w.block(x.Body.List, *gs)
	case *ast.BlockStmt:
		w.block(x.List, *gs)
	case *ast.SwitchStmt:
		for _, c := range x.Body.List {
			w.block(c.(*ast.CaseClause).Body, *gs)
		}
	case *ast.TypeSwitchStmt:
		for _, c := range x.Body.List {
			w.block(c.(*ast.CaseClause).Body, *gs)
		}
	case *ast.SelectStmt:
		for _, c := range x.Body.List {
			w.block(c.(*ast.CommClause).Body, *gs)
		}
	case *ast.LabeledStmt:
		w.stmt(x.Stmt, gs)
	case *ast.ExprStmt:
		w.funcLits(x.X, *gs)
	case *ast.DeferStmt:
		w.funcLits(x.Call, nil)
	case *ast.GoStmt:
		w.funcLits(x.Call, nil)
	case *ast.ReturnStmt:
		for _, r := range x.Results {
			w.funcLits(r, *gs)
		}
	}
}

// function literals: their bodies run at an unknown time — no guard of the enclosing function holds
func (w *stackWalker) funcLits(e ast.Node, _ []lenGuard) {
	ast.Inspect(e, func(n ast.Node) bool {
		if fl, ok := n.(*ast.FuncLit); ok {
			w.block(fl.Body.List, nil)
			return false
		}
		return true
	})
}

// collectStacks: one type-checked package
func collectStacks(fset *token.FileSet, info *types.Info, dir string, files []*ast.File) {
	// package-level variables: floors
	for _, f := range files {
		for _, d := range f.Decls {
			gd, ok := d.(*ast.GenDecl)
			if !ok || gd.Tok != token.VAR {
				continue
			}
			for _, sp := range gd.Specs {
				vs := sp.(*ast.ValueSpec)
				for i, n := range vs.Names {
					o, ok := info.Defs[n].(*types.Var)
					if !ok || n.Name == "_" {
						continue
					}
					var init ast.Expr
					if len(vs.Values) == len(vs.Names) {
						init = vs.Values[i]
					}
					if u, ok := init.(*ast.UnaryExpr); ok && u.Op == token.AND {
						init = u.X
					}
					cl, _ := init.(*ast.CompositeLit)
					ty := o.Type()
					if p, ok := ty.(*types.Pointer); ok {
						ty = p.Elem()
					}
					if _, ok := ty.Underlying().(*types.Slice); ok {
						k := dir + "||" + n.Name
						c := &containerInfo{pkg: dir, field: n.Name, vars: []string{n.Name}, hasVar: true}
						if cl != nil {
							c.floor = len(cl.Elts)
						}
						stackContainers[k] = c
						continue
					}
					named, ok := ty.(*types.Named)
					if !ok || named.Obj().Pkg() == nil || named.Obj().Pkg().Path() != modPath+"/"+dir {
						continue
					}
					st, ok := named.Underlying().(*types.Struct)
					if !ok {
						continue
					}
					for fi := 0; fi < st.NumFields(); fi++ {
						fld := st.Field(fi)
						if _, ok := fld.Type().Underlying().(*types.Slice); !ok {
							continue
						}
						k := dir + "|" + named.Obj().Name() + "|" + fld.Name()
						floor := 0
						if cl != nil {
							for ei, el := range cl.Elts {
								var val ast.Expr
								if kv, ok := el.(*ast.KeyValueExpr); ok {
									if id, ok := kv.Key.(*ast.Ident); ok && id.Name == fld.Name() {
										val = kv.Value
									}
								} else if ei == fi {
									val = el
								}
								if vcl, ok := val.(*ast.CompositeLit); ok {
									floor = len(vcl.Elts)
								}
							}
						} else if init != nil {
							// built by a constructor call: the floor is not read off — 0 (no demand)
							floor = 0
						}
						if c := stackContainers[k]; c != nil {
							c.vars = append(c.vars, n.Name)
							if floor < c.floor {
								c.floor = floor
							}
						} else {
							stackContainers[k] = &containerInfo{pkg: dir, ty: named.Obj().Name(), field: fld.Name(), vars: []string{n.Name}, floor: floor, hasVar: true}
						}
					}
				}
			}
		}
	}
	// functions
	for _, f := range files {
		fname := dir + "/" + filepathBase(fset.Position(f.Pos()).Filename)
		for _, d := range f.Decls {
			fd, ok := d.(*ast.FuncDecl)
			if !ok || fd.Body == nil {
				continue
			}
			w := &stackWalker{info: info, fset: fset, dir: dir, file: fname, fn: recvName(fd), found: map[string]bool{}, seen: map[string][]lenGuard{}}
			w.block(fd.Body.List, nil)
			// readers: a length guard on a container without an effect on it
			var conts []string
			for c := range w.seen {
				if !w.found[c] {
					conts = append(conts, c)
				}
			}
			sort.Strings(conts)
			for _, c := range conts {
				stackEffects = append(stackEffects, effectFact{c, fname, w.fn, w.seen[c], ".none", fset.Position(fd.Pos()).Line})
			}
		}
	}
}

func filepathBase(p string) string {
	if i := strings.LastIndexByte(p, '/'); i >= 0 {
		return p[i+1:]
	}
	return p
}

func leanGuards(gs []lenGuard) string {
	var parts []string
	for _, g := range gs {
		parts = append(parts, fmt.Sprintf("⟨.%s, %d, %v⟩", g.cmp, g.k, g.returns))
	}
	return "[" + strings.Join(parts, ", ") + "]"
}

func emitStacks(a ex.Args) {
	var keys []string
	for k, c := range stackContainers {
		if c.hasVar {
			keys = append(keys, k)
		}
	}
	sort.Strings(keys)
	byCont := map[string][]effectFact{}
	other := 0
	for _, e := range stackEffects {
		if c := stackContainers[e.cont]; c != nil && c.hasVar {
			byCont[e.cont] = append(byCont[e.cont], e)
		} else {
			other++
		}
	}
	var sb strings.Builder
	sb.WriteString("import Model.Stack\n")
	sb.WriteString("/-! Process-wide slices (a slice field of a struct type that has a package-level variable, or a\npackage-level slice variable) of the linked packages that some function shrinks, resets or guards by\nlength: the floor (elements stored by the initialiser) and every effect on the length with the length\nguards in force. Line numbers are in comments only. -/\n")
	sb.WriteString("namespace Generated.C20Stacks\nopen Model.Stack\n\n")
	sb.WriteString("def containers : List Container := [\n")
	n, ne, nfloor := 0, 0, 0
	var blocks []string
	for _, k := range keys {
		c := stackContainers[k]
		es := byCont[k]
		interesting := false
		for _, e := range es {
			if !strings.HasPrefix(e.eff, ".push") && e.eff != ".none" {
				interesting = true
			}
		}
		if !interesting {
			continue // only ever appended to or read: its length never goes down, nothing to state
		}
		n++
		if c.floor > 0 {
			nfloor++
		}
		sort.SliceStable(es, func(i, j int) bool {
			if es[i].file != es[j].file {
				return es[i].file < es[j].file
			}
			return es[i].fn < es[j].fn
		})
		var lines []string
		for i, e := range es {
			ne++
			comma := ","
			if i == len(es)-1 {
				comma = ""
			}
			lines = append(lines, fmt.Sprintf("    ⟨%s, %s, %s, %s⟩%s  -- line %d", ex.LeanString(e.file), ex.LeanString(e.fn), leanGuards(e.guards), e.eff, comma, e.line))
		}
		sort.Strings(c.vars)
		blocks = append(blocks, fmt.Sprintf("  ⟨%s, %s, %s, %s, %d, [\n%s\n  ]⟩", ex.LeanString(c.pkg), ex.LeanString(c.ty), ex.LeanString(c.field), ex.LeanString(strings.Join(c.vars, " ")), c.floor, strings.Join(lines, "\n")))
	}
	sb.WriteString(strings.Join(blocks, ",\n"))
	sb.WriteString("\n]\n\n")
	sort.Strings(stackShape)
	sb.WriteString("def shape : List String := [")
	for i, s := range stackShape {
		if i > 0 {
			sb.WriteString(", ")
		}
		sb.WriteString(ex.LeanString(s))
	}
	sb.WriteString("]\n\nend Generated.C20Stacks\n")
	if err := ex.WriteIfChanged(a.Out, "C20Stacks.lean", sb.String()); err != nil {
		fmt.Fprintln(os.Stderr, err)
		os.Exit(1)
	}
	fmt.Printf("c20: %d process-wide slices with length effects (%d with a floor ≥ 1), %d effects; %d effects on slices that are not process-wide by this definition\n", n, nfloor, ne, other)
}
