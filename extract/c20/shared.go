// extract/c20/shared.go: regenerates lean/Generated/C20Shared.lean.
//
// C20PkgState lists package-level variables that are WRITTEN through their own name (assignment,
// element / field write, pointer-receiver method, address taken). A package-level variable that
// holds a REFERENCE (pointer, or interface initialised with a pointer) can change without any such
// write: the value is handed out (returned, passed, stored) and the receiver mutates the pointee
// through its own alias. `var errX = data.NewErrorThrow(…)` + `return nil, errX` is that shape:
// no statement writes errX, yet ThrowValue.StackFrames grows at every boundary it unwinds through
// and Error.From is filled once — for the whole process.
//
// Facts, per package-level variable of the linked packages whose type is a pointer or an interface
// (referent = pointee type, resp. pointee of the static type of the initialiser):
//   * mutable: the field paths of the referent (through pointers, embedded / nested structs, slice
//     and map element types) that some statement of the linked packages assigns (x.f = …, x.f[i] = …,
//     x.f++, x.f = append(x.f, …)) — keyed by (package name, type name, field), found by go/types
//     in every function of the linked packages, constructors included (over-approximation);
//   * escapes: the sites where the variable is used as a VALUE — everything except: left side of an
//     assignment to the variable itself, operand of == / !=, receiver of a selector (field read or
//     method call; a pointer-receiver call is already a `method` write of C20PkgState), `&x`
//     (already a write), ranged over, indexed, argument of len/cap.
// The obligation (Proofs/Properties/C20.lean) demands an argued entry for every variable with a
// non-empty `mutable` and at least one escape.
package main

import (
	"fmt"
	"go/ast"
	"go/token"
	"go/types"
	"os"
	"path/filepath"
	"sort"
	"strings"

	"verif/extract/ex"
)

type sharedVar struct {
	pkg, name, file string
	ty              string
	referent        types.Type // struct behind the reference (nil: none / not a struct)
	refName         string
	escapes         []string // "file fn how"
	ctor            string   // interface-typed variable initialised by a call: full name of the callee (dynamic type resolved at the end)
}

var (
	sharedVars    = map[string]*sharedVar{}    // pkgdir.name
	mutatedFields = map[string]map[string]bool{} // "pkgname.Type" -> fields assigned somewhere
	sharedShape   []string
)

func namedKey(t types.Type) (string, *types.Struct) {
	for {
		if p, ok := t.(*types.Pointer); ok {
			t = p.Elem()
			continue
		}
		break
	}
	n, ok := t.(*types.Named)
	if !ok {
		return "", nil
	}
	st, ok := n.Underlying().(*types.Struct)
	if !ok {
		return "", nil
	}
	pk := ""
	if n.Obj().Pkg() != nil {
		pk = n.Obj().Pkg().Name()
	}
	return pk + "." + n.Obj().Name(), st
}

// recordFieldWrite: the field selected last on the chain of an assigned lvalue
func recordFieldWrite(info *types.Info, e ast.Expr) {
	for {
		switch x := e.(type) {
		case *ast.ParenExpr:
			e = x.X
			continue
		case *ast.IndexExpr:
			e = x.X
			continue
		case *ast.StarExpr:
			e = x.X
			continue
		case *ast.SelectorExpr:
			sel := info.Selections[x]
			if sel == nil || sel.Kind() != types.FieldVal {
				return
			}
			// the struct that declares the field (through embedding: the receiver type is enough for the closure)
			if k, _ := namedKey(sel.Recv()); k != "" {
				if mutatedFields[k] == nil {
					mutatedFields[k] = map[string]bool{}
				}
				mutatedFields[k][x.Sel.Name] = true
			}
			return
		}
		return
	}
}

func collectShared(fset *token.FileSet, info *types.Info, dir string, files []*ast.File, isTarget map[string]string) {
	// 1. variables
	for _, f := range files {
		fname := filepath.Base(fset.Position(f.Pos()).Filename)
		for _, d := range f.Decls {
			gd, ok := d.(*ast.GenDecl)
			if !ok || gd.Tok != token.VAR {
				continue
			}
			for _, sp := range gd.Specs {
				vs := sp.(*ast.ValueSpec)
				for i, n := range vs.Names {
					o, ok := info.Defs[n].(*types.Var)
					if !ok || n.Name == "_" {
						continue
					}
					var ref types.Type
					ctor := ""
					switch t := o.Type().Underlying().(type) {
					case *types.Pointer:
						ref = t.Elem()
					case *types.Interface:
						if len(vs.Values) == len(vs.Names) {
							if it := info.TypeOf(vs.Values[i]); it != nil {
								if p, ok := it.Underlying().(*types.Pointer); ok {
									ref = p.Elem()
								} else if _, isIface := it.Underlying().(*types.Interface); isIface {
									// initialised through a function that returns an interface: the dynamic type is what the callee returns
									ctor = "?"
									if ce, ok := vs.Values[i].(*ast.CallExpr); ok {
										var fid *ast.Ident
										switch f := ce.Fun.(type) {
										case *ast.Ident:
											fid = f
										case *ast.SelectorExpr:
											fid = f.Sel
										}
										if fid != nil {
											if fo, ok := info.Uses[fid].(*types.Func); ok {
												ctor = fo.FullName()
											}
										}
									}
								}
							}
						}
					default:
						continue
					}
					if ref == nil && ctor == "" {
						continue
					}
					k := ""
					if ref != nil {
						k, _ = namedKey(ref)
					}
					sharedVars[dir+"."+n.Name] = &sharedVar{pkg: dir, name: n.Name, file: fname, referent: ref, refName: k, ctor: ctor,
						ty: types.TypeString(o.Type(), func(p *types.Package) string { return p.Name() })}
				}
			}
		}
	}
	// 2. field writes + escapes, everywhere (init and initialisers included)
	for _, f := range files {
		fname := dir + "/" + filepath.Base(fset.Position(f.Pos()).Filename)
		for _, d := range f.Decls {
			fn := "<var-init>"
			fnFull := ""
			if fd, ok := d.(*ast.FuncDecl); ok {
				fn = recvName(fd)
				if fo, ok := info.Defs[fd.Name].(*types.Func); ok && fd.Type.Results != nil && len(fd.Type.Results.List) == 1 {
					if _, isIface := info.TypeOf(fd.Type.Results.List[0].Type).Underlying().(*types.Interface); isIface {
						fnFull = fo.FullName()
						if _, ok := ctorRets[fnFull]; !ok {
							ctorRets[fnFull] = nil
						}
					}
				}
			}
			var stack []ast.Node
			ast.Inspect(d, func(n ast.Node) bool {
				if n == nil {
					stack = stack[:len(stack)-1]
					return true
				}
				switch s := n.(type) {
				case *ast.AssignStmt:
					for _, l := range s.Lhs {
						recordFieldWrite(info, l)
					}
				case *ast.IncDecStmt:
					recordFieldWrite(info, s.X)
				case *ast.FuncLit:
					fnFull = "" // returns of a closure are not the function's
				case *ast.ReturnStmt:
					if fnFull != "" && len(s.Results) == 1 {
						if rt := info.TypeOf(s.Results[0]); rt != nil {
							ctorRets[fnFull] = append(ctorRets[fnFull], rt)
						}
					}
				case *ast.Ident:
					if v, ok := info.Uses[s].(*types.Var); ok && isPkgLevel(v) {
						if vd, ok := isTarget[v.Pkg().Path()]; ok {
							if how := escapeHow(s, stack); how != "" {
								pendingEscapes = append(pendingEscapes, pendingEscape{vd + "." + v.Name(), fname + " " + fn + " " + how})
							}
						}
					}
				}
				stack = append(stack, n)
				return true
			})
		}
	}
}

// functions with one interface-typed result: the static types of what they return
var ctorRets = map[string][]types.Type{}

type pendingEscape struct{ key, site string }

var pendingEscapes []pendingEscape

// escapeHow: "" when the identifier (or pkg.identifier) is not used as a value that leaves the variable
func escapeHow(id *ast.Ident, stack []ast.Node) string {
	var self ast.Node = id
	i := len(stack) - 1
	if i >= 0 {
		if se, ok := stack[i].(*ast.SelectorExpr); ok && se.Sel == id {
			self = se // pkg.Var
			i--
		}
	}
	for i >= 0 {
		if pe, ok := stack[i].(*ast.ParenExpr); ok {
			self = pe
			i--
			continue
		}
		break
	}
	if i < 0 {
		return ""
	}
	switch p := stack[i].(type) {
	case *ast.SelectorExpr:
		if p.X == self {
			return "" // field read or method call
		}
	case *ast.AssignStmt:
		for _, l := range p.Lhs {
			if l == self {
				return ""
			}
		}
		return "assigned"
	case *ast.BinaryExpr:
		if p.Op == token.EQL || p.Op == token.NEQ {
			return ""
		}
	case *ast.UnaryExpr:
		if p.Op == token.AND {
			return ""
		}
	case *ast.IndexExpr:
		if p.X == self {
			return ""
		}
	case *ast.RangeStmt:
		if p.X == self {
			return ""
		}
	case *ast.StarExpr:
		return "" // *x: a copy of the pointee, or a write already counted
	case *ast.ValueSpec:
		return "initialises"
	case *ast.ReturnStmt:
		return "returned"
	case *ast.CallExpr:
		if f, ok := p.Fun.(*ast.Ident); ok && (f.Name == "len" || f.Name == "cap") {
			return ""
		}
		if p.Fun == self {
			return ""
		}
		return "argument"
	case *ast.CompositeLit, *ast.KeyValueExpr:
		return "stored"
	case *ast.SendStmt:
		return "sent"
	case *ast.IfStmt, *ast.ExprStmt, *ast.SwitchStmt, *ast.TypeSwitchStmt, *ast.TypeAssertExpr, *ast.CaseClause:
		return ""
	}
	return "used"
}

// mutablePaths: field paths of t (a struct behind a reference) that are assigned somewhere
func mutablePaths(t types.Type, prefix string, depth int, seen map[string]bool, out *[]string) {
	if depth > 3 {
		return
	}
	k, st := namedKey(t)
	if st == nil {
		if s, ok := t.Underlying().(*types.Struct); ok {
			st = s
		} else {
			return
		}
	}
	if k != "" {
		if seen[k] {
			return
		}
		seen[k] = true
		defer delete(seen, k)
	}
	for i := 0; i < st.NumFields(); i++ {
		f := st.Field(i)
		p := prefix + f.Name()
		if k != "" && mutatedFields[k][f.Name()] {
			*out = append(*out, p)
		}
		ft := f.Type()
		for {
			switch u := ft.Underlying().(type) {
			case *types.Pointer:
				ft = u.Elem()
				continue
			case *types.Slice:
				ft = u.Elem()
				continue
			case *types.Map:
				ft = u.Elem()
				continue
			}
			break
		}
		if _, ok := ft.Underlying().(*types.Struct); ok {
			mutablePaths(ft, p+".", depth+1, seen, out)
		}
	}
}

func emitShared(a ex.Args) {
	for _, pe := range pendingEscapes {
		if v := sharedVars[pe.key]; v != nil {
			v.escapes = append(v.escapes, pe.site)
		}
	}
	var keys []string
	for k := range sharedVars {
		keys = append(keys, k)
	}
	sort.Strings(keys)
	var sb strings.Builder
	sb.WriteString("import Model.Shared\n")
	sb.WriteString("/-! Package-level variables of the linked packages that hold a reference (pointer, or interface\ninitialised with a pointer): the field paths of the referent that some statement of the linked\npackages assigns, and the number of sites where the variable is used as a value (returned, passed,\nstored, assigned to something else). Sites are in comments only. -/\n")
	sb.WriteString("namespace Generated.C20Shared\nopen Model.Shared\n\ndef refs : List SharedRef := [\n")
	n, nm, ne := 0, 0, 0
	var blocks []string
	for _, k := range keys {
		v := sharedVars[k]
		var paths []string
		if v.ctor == "" {
			mutablePaths(v.referent, "", 0, map[string]bool{}, &paths)
		} else {
			v.refName = "?" + v.ctor
			rets, inModule := ctorRets[v.ctor]
			switch {
			case !strings.HasPrefix(v.ctor, modPath) && !strings.HasPrefix(v.ctor, "("+modPath) && !strings.HasPrefix(v.ctor, "(*"+modPath):
				// a constructor outside the repository (errors.New, fmt.Errorf …): no statement of the linked packages assigns a field of what it returns
			case !inModule || len(rets) == 0:
				paths = append(paths, "?") // dynamic type not known: must be argued
			default:
				var names []string
				for _, rt := range rets {
					if _, isIface := rt.Underlying().(*types.Interface); isIface {
						if b, ok := rt.(*types.Basic); ok && b.Kind() == types.UntypedNil {
							continue
						}
						paths = append(paths, "?")
						continue
					}
					if p, ok := rt.Underlying().(*types.Pointer); ok {
						if k, _ := namedKey(p.Elem()); k != "" {
							names = append(names, k)
						}
						mutablePaths(p.Elem(), "", 0, map[string]bool{}, &paths)
					}
				}
				sort.Strings(names)
				v.refName = strings.Join(dedup(names), "|") + " via " + v.ctor[strings.LastIndex(v.ctor, "/")+1:]
			}
			paths = dedup(paths)
		}
		sort.Strings(paths)
		if len(paths) > 12 {
			paths = append(paths[:12], "…")
		}
		n++
		if len(paths) > 0 {
			nm++
			if len(v.escapes) > 0 {
				ne++
			}
		}
		sort.Strings(v.escapes)
		var ps []string
		for _, p := range paths {
			ps = append(ps, ex.LeanString(p))
		}
		b := fmt.Sprintf("  ⟨%s, %s, %s, [%s], %d⟩", ex.LeanString(v.pkg), ex.LeanString(v.name), ex.LeanString(v.refName), strings.Join(ps, ", "), len(v.escapes))
		cm := fmt.Sprintf("  -- %s %s", v.file, v.ty)
		for i, s := range v.escapes {
			if i >= 6 {
				cm += fmt.Sprintf("\n    --   … %d more", len(v.escapes)-i)
				break
			}
			cm += "\n    --   " + s
		}
		blocks = append(blocks, b+"@@"+cm)
	}
	for i, b := range blocks {
		parts := strings.SplitN(b, "@@", 2)
		comma := ","
		if i == len(blocks)-1 {
			comma = ""
		}
		sb.WriteString(parts[0] + comma + parts[1] + "\n")
	}
	sb.WriteString("]\n\n")
	sort.Strings(sharedShape)
	sb.WriteString("def shape : List String := [")
	for i, s := range sharedShape {
		if i > 0 {
			sb.WriteString(", ")
		}
		sb.WriteString(ex.LeanString(s))
	}
	sb.WriteString("]\n\nend Generated.C20Shared\n")
	if err := ex.WriteIfChanged(a.Out, "C20Shared.lean", sb.String()); err != nil {
		fmt.Fprintln(os.Stderr, err)
		os.Exit(1)
	}
	fmt.Printf("c20: %d package-level reference variables, %d with a referent that has assigned fields, %d of those handed out as a value\n", n, nm, ne)
}

func dedup(xs []string) []string {
	sort.Strings(xs)
	var out []string
	for i, x := range xs {
		if i == 0 || xs[i-1] != x {
			out = append(out, x)
		}
	}
	return out
}
